"""C17 cases: std trait implementations vs inherent methods (see harness/src/bin/c17.rs header)."""
from .common import *
from .c03 import div_pair
from .c02 import mul_pair
from . import widthsweep as _ws

HARNESS_BINS_THOROUGH = ["widths"]


def ROUTE(line):
    # the c17 bin instantiates CFGS17 only; every other u8xN (from the all-widths sweep) goes to `widths`
    p = line.split(" ")
    if p[0] == "from_str" and p[1].startswith("u8x") and p[1][1:] not in CFGS17:
        return "widths"
    return "c17"


CFGS17 = ["8x1", "8x2", "8x3", "8x5", "8x17", "8x64", "16x1", "16x3", "16x4", "32x2", "32x3", "64x1", "64x2", "64x3", "64x16"]
QUICK17 = ["8x1", "8x3", "8x5", "16x3", "32x2", "64x1", "64x2", "64x3", "8x17", "64x16", "8x64"]
FORMS = ["vv", "vr", "rv", "rr", "as", "asr", "inh"]
SFORMS = ["vv", "vr", "rv", "rr", "as", "asr"]
PRIM = {"u8": (8, False), "u16": (16, False), "u32": (32, False), "u64": (64, False), "u128": (128, False), "usize": (64, False),
        "i8": (8, True), "i16": (16, True), "i32": (32, True), "i64": (64, True), "i128": (128, True), "isize": (64, True)}


def prim_amount(rng, ty, W):
    bits, signed = PRIM[ty]
    lo, hi = (-(1 << (bits - 1)), (1 << (bits - 1)) - 1) if signed else (0, (1 << bits) - 1)
    k = rng.choice([0, 1, W - 1, W, W + 1, 2 * W, -1, -W, lo, hi, (1 << 32) - 1, 1 << 32, (1 << 32) + 3, (1 << 32) + W,
                    rng.randrange(W), rng.randrange(W), rng.randrange(W)])
    return max(lo, min(hi, k))


def gen(rng, tier):
    if tier == "thorough":
        # FromStr on every width 8..8192 (u8 digits): thresholds derived from BITS (seeded change C17-r4m2)
        for l, t in _ws.parse_print(rng):
            if l.startswith("from_str "):
                yield l, t
    reps = 12 if tier == "thorough" else 6
    for cfg in (CFGS17 if tier == "thorough" else QUICK17):
        w, n = wn(cfg)
        W = w * n
        M = 1 << W
        for _ in range(reps):
            for s in "ui":
                sg = s == "i"
                # FromStr (decimal): values around the type's limits, u64-sized values on narrow types, signs
                lim = (M >> 1) if sg else M
                for z in (lim - 1, lim, lim + 1, 0, rng.randrange(lim), rng.randrange(1 << 64), (1 << 64) - 1, 1 << 64, rng.randrange(1 << 70)):
                    sign = rng.choice(["", "+", "-"]) if sg else rng.choice(["", "+"])
                    yield f"from_str {s}{cfg} {(sign + str(z)).encode().hex()}", "from_str"
                for k in (1, 7, W - 1, W, W + 1, 2 * W):
                    for sgn in "+-":
                        yield f"from_str {s}{cfg} {('0' * k + sgn + str(rng.randrange(1, 100))).encode().hex()}", "from_str-zeros-then-sign"
                    yield f"from_str {s}{cfg} {('0' * k + str(rng.randrange(0, 100))).encode().hex()}", "from_str-zeros"
                for junk in ("", "+", "-", "12a", " 1", "1_0"):
                    yield f"from_str {s}{cfg} {junk.encode().hex() or '-'}", "from_str-junk"
                for mode in ("dbg", "rel"):
                    for op in ("add", "sub", "bitand", "bitor", "bitxor"):
                        for f in FORMS:
                            t, a, b = pair(rng, w, n)
                            yield f"{op}_{f} {s}{cfg} {mode} {hx(a)} {hx(b)}", t
                    for f in FORMS:
                        t, a, b = mul_pair(rng, w, n, sg)
                        yield f"mul_{f} {s}{cfg} {mode} {hx(a)} {hx(b)}", t
                    for op in ("div", "rem"):
                        for f in FORMS:
                            t, a, b = div_pair(rng, w, n, sg)
                            yield f"{op}_{f} {s}{cfg} {mode} {hx(a)} {hx(b)}", t
                    t, a = value(rng, w, n)
                    for f in ("v", "r", "inh"):
                        yield f"not_{f} {s}{cfg} {mode} {hx(a)}", t
                        if sg:
                            yield f"neg_{f} i{cfg} {mode} {hx(a)}", t
                    for ty in PRIM:
                        for sh in ("shl", "shr"):
                            f = rng.choice(SFORMS)
                            t, a = value(rng, w, n)
                            k = prim_amount(rng, ty, W)
                            yield f"{sh}_{ty}_{f} {s}{cfg} {mode} {hx(a)} {k}", t
                    for sh in ("shl", "shr"):
                        t, a = value(rng, w, n)
                        yield f"{sh}_u32_inh {s}{cfg} {mode} {hx(a)} {max(0, min((1 << 32) - 1, prim_amount(rng, 'u32', W)))}", t
                        for kind in ("bu", "bi"):
                            f = rng.choice(SFORMS)
                            t, a = value(rng, w, n)
                            k = rng.choice([0, 1, W - 1, W, W + 1, rng.randrange(W), rng.randrange(W), M - 1, M >> 1, (1 << 32) % M, ((1 << 32) + 1) % M])
                            yield f"{sh}_{kind}_{f} {s}{cfg} {mode} {hx(a)} {hx(k % M)}", t
                    # Sum / Product
                    k = rng.choice([0, 1, 2, 3, 4, 4, 5, 8, 9, 16, 17, 33])
                    small = rng.random() < 0.6
                    xs = [(rng.randrange(0, 12) if small else value(rng, w, n)[1]) for _ in range(k)]
                    if sg and small:
                        xs = [pat(x - 5, W) for x in xs]
                    lst = ",".join(hx(x) for x in xs) or "-"
                    for op in ("sum", "sum_ref", "product", "product_ref"):
                        yield f"{op} {s}{cfg} {mode} {lst}", "fold%d" % min(k, 6)
                    yield f"default {s}{cfg} {mode}", "default"
                    t, a, b = pair(rng, w, n)
                    for op in ("cmp_partial_cmp", "cmp_ord_cmp", "cmp_cmp_inh", "cmp_eq", "cmp_eq_inh", "cmp_ne", "cmp_lt", "cmp_le", "cmp_gt", "cmp_ge"):
                        yield f"{op} {s}{cfg} {mode} {hx(a)} {hx(b)}", t
                    if not sg:
                        t, a = value(rng, w, n)
                        d = digit_value(rng, w)
                        yield f"add_digit u{cfg} {mode} {hx(a)} {hx(d)}", t
                        yield f"div_digit u{cfg} {mode} {hx(a)} {hx(d)}", t
                        yield f"rem_digit u{cfg} {mode} {hx(a)} {hx(d)}", t
                        # carry chains of every length: the low k digits saturated (minus a small delta), the
                        # digit operand just reaching / just missing the carry (added after seeded change C17-r4m1)
                        for _ in range(4):
                            k = rng.randrange(1, n + 1)
                            delta = rng.choice([0, 0, 1, rng.randrange(1 << w)])
                            up = rng.choice([0, 0, 1, (1 << w) - 1, rng.randrange(1 << w), rng.randrange(M)])
                            a = (((1 << (w * k)) - 1 - delta) | (up << (w * k))) % M
                            d = max(0, min((1 << w) - 1, delta + rng.choice([1, 1, 0, 2])))
                            yield f"add_digit u{cfg} {mode} {hx(a)} {hx(d)}", "carry-chain-%d" % min(k, 4)
