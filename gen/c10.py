"""C10 cases: parsing (from_str_radix, FromStr, parse_bytes, from_radix_be/le)."""
from .common import *
from . import widthsweep as _ws

HARNESS_BINS_THOROUGH = ["widths"]
from . import prim as _prim

# the trusted leaf layer (Lean Prim.*) is validated against rustc's primitives in the same run
HARNESS_BINS = ["c10", "prim"]


def _route_inner(line):
    return _prim.route(line, "c10")

DIG = "0123456789abcdefghijklmnopqrstuvwxyz"


def numeral(v, r):
    if v == 0:
        return "0"
    s = ""
    while v:
        s = DIG[v % r] + s
        v //= r
    return s


def hexs(b):
    return b.hex() if b else "-"


def str_case(rng, w, n, signed, r):
    """(tag, bytes)"""
    W = w * n
    M = 1 << W
    H = M >> 1
    c = rng.randrange(17)
    if c == 16:
        c = 15
    if c == 0:
        return "empty", b""
    if c == 1:
        return "lone-sign", rng.choice([b"+", b"-"])
    lim = H if signed else M
    if c <= 5:
        z = rng.choice([lim - 1, lim, lim + 1, lim - 2, 0, 1, M - 1, M, M + 1, H - 1, H, H + 1, r ** (rng.randrange(1, 8)),
                        rng.randrange(lim), rng.randrange(2 * M)])
        neg = signed and rng.random() < 0.5
        if neg and rng.random() < 0.6:
            z = rng.choice([H, H + 1, H - 1, z])
        s = numeral(z, r)
        if rng.random() < 0.3:
            s = "".join(ch.upper() if rng.random() < 0.5 else ch for ch in s)
        zeros = rng.choice([0, 0, 0, 1, 2, 5, W // 4 + 1, W + 3])
        s = "0" * zeros + s
        sign = "-" if neg else rng.choice(["", "", "+"])
        return "numeral%s%s" % ("-lz" if zeros else "", "-neg" if neg else ""), (sign + s).encode()
    if c == 15:
        # (limit + delta) * r^j + eps: an intermediate prefix just past the limit, followed by more digits
        lim2 = rng.choice([M, H]) if signed else M
        z = (lim2 + rng.randrange(0, 9)) * r ** rng.randrange(0, 45) + rng.randrange(0, 6)
        neg = signed and rng.random() < 0.5
        return "limit*r^j", (("-" if neg else rng.choice(["", "+", "+000"])) + numeral(z, r)).encode()
    if c <= 7:
        # leading zeros pushing the digit count around the capacity (radices 2/4/16 count digits)
        cap = len(numeral(lim - 1, r))
        ln = rng.choice([cap - 1, cap, cap + 1, cap + 2, 2 * cap])
        z = rng.choice([0, 1, rng.randrange(lim)])
        s = numeral(z, r)
        s = "0" * max(0, ln - len(s)) + s
        return "lz-cap", (rng.choice(["", "+"]) + s).encode()
    if c <= 11:
        # one invalid byte in an otherwise valid numeral (short or long)
        ln = rng.choice([1, 2, 3, 5, W // 8, W])
        s = bytearray(numeral(rng.randrange(r ** ln), r).encode())
        bad = rng.choice([bytes([rng.randrange(0x80, 0x100)]), bytes([rng.choice([0xc1, 0xda, 0xe1, 0xfa, 0xc0, 0xff, 0x80, 0xbf])]),
                          b" ", b"_", b"-", b"+", b"\t", b"\n", b".", b"/", b":", b"@", b"[", b"`", b"{", b"\xc3\xa9", b"\xd9\xa1",
                          DIG[r].encode() if r < 36 else b"~", DIG[min(35, r)].upper().encode() if r < 36 else b"!", b"\x00", b"\x7f"])
        pos = rng.choice([0, len(s) // 2, len(s)])
        s[pos:pos] = bad
        return "invalid", bytes(s)
    if c == 12:
        if rng.random() < 0.5:
            k = rng.choice([1, 7, W - 1, W, W + 1, 2 * W])
            return "zeros-then-sign", ("0" * k + rng.choice("+-") + numeral(rng.randrange(1, r ** 3), r)).encode()
        return "double-sign", rng.choice([b"+-1", b"--1", b"-+1", b"++0", b"1-", b"1+"])
    if c == 13:
        return "unsigned-minus", b"-" + numeral(rng.randrange(3), r).encode()
    ln = rng.choice([1, 2, W // 4, W, 2 * W])
    return "random-digits", "".join(rng.choice(DIG[:r]) for _ in range(ln)).encode()


def digits_case(rng, w, n, r):
    W = w * n
    M = 1 << W
    c = rng.randrange(8)
    if c == 0:
        return "empty", []
    if c <= 3:
        z = rng.choice([M - 1, M, M + 1, 0, 1, rng.randrange(M), rng.randrange(2 * M), (M + rng.randrange(9)) * r ** rng.randrange(0, 45) + rng.randrange(6)])
        ds = []
        while z:
            ds.append(z % r)
            z //= r
        ds = ds or [0]
        ds += [0] * rng.choice([0, 0, 1, 3, W // 2])
        return "value", ds
    if c == 4:
        ds = [rng.randrange(r) for _ in range(rng.choice([1, 2, W // 8 + 1]))]
        ds[rng.randrange(len(ds))] = min(255, r + rng.choice([0, 1, 255 - r]))
        return "bad-digit", ds
    return "random", [rng.randrange(r) for _ in range(rng.choice([1, 2, 3, W // 8, W // 4, W]))]


def _gen_main(rng, tier):
    reps = 12 if tier == "thorough" else 3
    cf = cfgs(tier)
    for cfg in cf:
        w, n = wn(cfg)
        if n > 20:
            continue
        for s in "ui":
            for r in range(2, 37):
                for _ in range(reps * (3 if r in (2, 4, 8, 10, 16, 32, 36) else 1)):
                    t, b = str_case(rng, w, n, s == "i", r)
                    try:
                        b.decode()
                        yield f"from_str_radix {s}{cfg} {r} {hexs(b)}", t
                        if rng.randrange(4) == 0:
                            yield f"parse_str_radix {s}{cfg} {r} {hexs(b)}", t
                    except UnicodeDecodeError:
                        pass
                    t, b = str_case(rng, w, n, s == "i", r)
                    yield f"parse_bytes {s}{cfg} {r} {hexs(b)}", t
            for _ in range(6 * reps):
                t, b = str_case(rng, w, n, s == "i", 10)
                try:
                    b.decode()
                    yield f"from_str {s}{cfg} {hexs(b)}", t
                except UnicodeDecodeError:
                    pass
            for r in list(range(2, 40)) + [64, 100, 128, 200, 255, 256]:
                for _ in range(reps):
                    t, ds = digits_case(rng, w, n, r)
                    be = bytes(reversed(ds))
                    yield f"from_radix_be {s}{cfg} {r} {hexs(be)}", t
                    t, ds = digits_case(rng, w, n, r)
                    yield f"from_radix_le {s}{cfg} {r} {hexs(bytes(ds))}", t
            for r in (0, 1, 37, 257, 1000):
                yield f"from_str_radix {s}{cfg} {r} 31", "bad-radix"
                yield f"parse_str_radix {s}{cfg} {r} 31", "bad-radix"
                yield f"from_radix_be {s}{cfg} {r} 01", "bad-radix"
                yield f"from_radix_le {s}{cfg} {r} 01", "bad-radix"


def length_sweep(rng, tier):
    """numerals of EVERY length 1 .. capacity+2 (chunked accumulation: a length that is a multiple of the chunk
    size, plus one, minus one, ...), three digit patterns per length, for a few radices and configurations"""
    for cfg in ["8x3", "16x3", "64x2", "8x17"] + (["32x3", "64x5", "16x9"] if tier == "thorough" else []):
        w, n = wn(cfg)
        M = 1 << (w * n)
        for r in (2, 3, 7, 10, 16, 36) + ((5, 8, 32, 35) if tier == "thorough" else ()):
            cap = len(numeral(M - 1, r))
            for L in range(1, cap + 3):
                pats = ["1" + "0" * (L - 1), DIG[r - 1] * L,
                        rng.choice(DIG[1:r]) + "".join(rng.choice(DIG[:r]) for _ in range(L - 1)),
                        "1" + "0" * (L - 2) + "1" if L > 1 else "1"]
                for k, body in enumerate(pats):
                    s = "ui"[(L + k) & 1]
                    sign = "-" if (s == "i" and k == 1) else ("+" if k == 2 and L % 3 == 0 else "")
                    b = (sign + body).encode()
                    yield f"from_str_radix {s}{cfg} {r} {hexs(b)}", "length-sweep"
                    if k == 0:
                        yield f"parse_bytes {s}{cfg} {r} {hexs(b)}", "length-sweep"
                ds = bytes(rng.randrange(r) for _ in range(L - 1)) + bytes([rng.randrange(1, r)])
                yield f"from_radix_le u{cfg} {r} {hexs(ds)}", "length-sweep"
                yield f"from_radix_be i{cfg} {r} {hexs(ds[::-1])}", "length-sweep"


def gen(rng, tier):
    yield from _gen_main(rng, tier)
    yield from length_sweep(rng, tier)
    if tier == "thorough":
        yield from _ws.parse_print(rng)
    yield from _prim.utf8(rng, tier)


def ROUTE(line):
    return _ws.route(line, None, _route_inner)
