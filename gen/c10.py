"""C10 cases: parsing (from_str_radix, parse_str_radix, FromStr / str::parse, parse_bytes, from_radix_be/le).

_gen_main     every radix x value classes around the limits, configurations up to 20 digits
bad_radix     out-of-range radices (incl. ones whose `as u8` / `as $Digit` truncation is in range) x payloads
              (empty, lone sign, invalid digit, overflow, non-ASCII, invalid UTF-8) for every entry point
edge_strings  sign / zero / non-ASCII-digit corners of the grammar
chunk_boundary_radices   digit-slice radices at which `radix_base`'s chunk size changes for the digit type
length_sweep  every numeral length 1 .. capacity+2
wide          n > 20 and the 8192-bit instantiation of every digit type: reduced set, every entry point, both arms
"""
from .common import *

# other public routes to this property's operations (check.py step 2d): the neighbour generator's requests whose
# operation matches are part of this run, answered by the neighbour's harness bin
NEIGHBOURS = {"C17": r"from_str\b", "C18": r"nt_from_str_radix\b"}
from . import widthsweep as _ws

HARNESS_BINS_THOROUGH = ["widths"]
from . import prim as _prim

# the trusted leaf layer (Lean Prim.*) is validated against rustc's primitives in the same run
HARNESS_BINS = ["c10", "prim"]


def _route_inner(line):
    return _prim.route(line, "c10")

DIG = "0123456789abcdefghijklmnopqrstuvwxyz"


def numeral(v, r):
    if v == 0:
        return "0"
    s = ""
    while v:
        s = DIG[v % r] + s
        v //= r
    return s


def hexs(b):
    return b.hex() if b else "-"


_LOOKALIKE = {}


def lookalikes(r, mask):
    """Non-ASCII characters (valid UTF-8, two and three bytes) every byte `b` of which becomes a digit of radix `r`
    under the bit fold `b & mask` (letters in either case): what a table lookup / case fold / range test done on a
    masked byte would wrongly accept.  E.g. mask 0x7f, radix 12: U+00B0 = C2 B0 -> 'B' '0'."""
    key = (r, mask)
    if key not in _LOOKALIKE:
        ok = set((DIG[:r] + DIG[:r].upper()).encode())
        out = []
        for cp in list(range(0x80, 0x800)) + list(range(0x800, 0x10000, 7)):
            if 0xd800 <= cp < 0xe000:
                continue
            b = chr(cp).encode()
            if all((x & mask) in ok for x in b):
                out.append(b)
        _LOOKALIKE[key] = out
    return _LOOKALIKE[key]


def str_case(rng, w, n, signed, r):
    """(tag, bytes)"""
    W = w * n
    M = 1 << W
    H = M >> 1
    c = rng.randrange(18)
    if c == 16:
        c = 15
    if c == 17:
        # strings made (partly or wholly) of non-ASCII characters whose bytes fold onto digits under a bit mask
        # (added after seeded change C10-r7m1: digit table indexed with `byte & 0x7f`)
        for mask in rng.sample([0x7f, 0x7f, 0x5f, 0xdf, 0x3f, 0xbf], 4):
            la = lookalikes(r, mask)
            if la:
                k = rng.choice([1, 1, 2, 3])
                parts = [rng.choice(la) for _ in range(k)]
                if rng.random() < 0.5:
                    parts.insert(rng.randrange(len(parts) + 1), numeral(rng.randrange(r ** 2), r).encode())
                return "lookalike-%02x" % mask, rng.choice([b"", b"", b"+", b"-"]) + b"".join(parts)
        c = 9
    if c == 0:
        return "empty", b""
    if c == 1:
        return "lone-sign", rng.choice([b"+", b"-"])
    lim = H if signed else M
    if c <= 5:
        z = rng.choice([lim - 1, lim, lim + 1, lim - 2, 0, 1, M - 1, M, M + 1, H - 1, H, H + 1, r ** (rng.randrange(1, 8)),
                        rng.randrange(lim), rng.randrange(2 * M)])
        neg = signed and rng.random() < 0.5
        if neg and rng.random() < 0.6:
            z = rng.choice([H, H + 1, H - 1, z])
        s = numeral(z, r)
        if rng.random() < 0.3:
            s = "".join(ch.upper() if rng.random() < 0.5 else ch for ch in s)
        zeros = rng.choice([0, 0, 0, 1, 2, 5, W // 4 + 1, W + 3])
        s = "0" * zeros + s
        sign = "-" if neg else rng.choice(["", "", "+"])
        return "numeral%s%s" % ("-lz" if zeros else "", "-neg" if neg else ""), (sign + s).encode()
    if c == 15:
        # (limit + delta) * r^j + eps: an intermediate prefix just past the limit, followed by more digits
        lim2 = rng.choice([M, H]) if signed else M
        z = (lim2 + rng.randrange(0, 9)) * r ** rng.randrange(0, 45) + rng.randrange(0, 6)
        neg = signed and rng.random() < 0.5
        return "limit*r^j", (("-" if neg else rng.choice(["", "+", "+000"])) + numeral(z, r)).encode()
    if c <= 7:
        # leading zeros pushing the digit count around the capacity (radices 2/4/16 count digits)
        cap = len(numeral(lim - 1, r))
        ln = rng.choice([cap - 1, cap, cap + 1, cap + 2, 2 * cap])
        z = rng.choice([0, 1, rng.randrange(lim)])
        s = numeral(z, r)
        s = "0" * max(0, ln - len(s)) + s
        return "lz-cap", (rng.choice(["", "+"]) + s).encode()
    if c <= 11:
        # one invalid byte in an otherwise valid numeral (short or long)
        ln = rng.choice([1, 2, 3, 5, W // 8, W])
        s = bytearray(numeral(rng.randrange(r ** ln), r).encode())
        bad = rng.choice([bytes([rng.randrange(0x80, 0x100)]), bytes([rng.choice([0xc1, 0xda, 0xe1, 0xfa, 0xc0, 0xff, 0x80, 0xbf])]),
                          b" ", b"_", b"-", b"+", b"\t", b"\n", b".", b"/", b":", b"@", b"[", b"`", b"{", b"\xc3\xa9", b"\xd9\xa1",
                          DIG[r].encode() if r < 36 else b"~", DIG[min(35, r)].upper().encode() if r < 36 else b"!", b"\x00", b"\x7f"])
        pos = rng.choice([0, len(s) // 2, len(s)])
        s[pos:pos] = bad
        return "invalid", bytes(s)
    if c == 12:
        if rng.random() < 0.5:
            k = rng.choice([1, 7, W - 1, W, W + 1, 2 * W])
            return "zeros-then-sign", ("0" * k + rng.choice("+-") + numeral(rng.randrange(1, r ** 3), r)).encode()
        return "double-sign", rng.choice([b"+-1", b"--1", b"-+1", b"++0", b"1-", b"1+"])
    if c == 13:
        return "unsigned-minus", b"-" + numeral(rng.randrange(3), r).encode()
    ln = rng.choice([1, 2, W // 4, W, 2 * W])
    return "random-digits", "".join(rng.choice(DIG[:r]) for _ in range(ln)).encode()


def digits_case(rng, w, n, r):
    W = w * n
    M = 1 << W
    c = rng.randrange(8)
    if c == 0:
        return "empty", []
    if c <= 3:
        H = M >> 1
        z = rng.choice([M - 1, M, M + 1, 0, 1, H - 1, H, H + 1, H + (1 << rng.randrange(W)), rng.randrange(M), rng.randrange(2 * M),
                        (M + rng.randrange(9)) * r ** rng.randrange(0, 45) + rng.randrange(6)])
        ds = []
        while z:
            ds.append(z % r)
            z //= r
        ds = ds or [0]
        ds += [0] * rng.choice([0, 0, 1, 3, W // 2])
        return "value", ds
    if c == 4:
        ds = [rng.randrange(r) for _ in range(rng.choice([1, 2, W // 8 + 1]))]
        ds[rng.randrange(len(ds))] = min(255, r + rng.choice([0, 1, 255 - r]))
        return "bad-digit", ds
    return "random", [rng.randrange(r) for _ in range(rng.choice([1, 2, 3, W // 8, W // 4, W]))]


def _gen_main(rng, tier):
    reps = 12 if tier == "thorough" else 3
    cf = cfgs(tier)
    for cfg in cf:
        w, n = wn(cfg)
        if n > 20:
            continue
        for s in "ui":
            for r in range(2, 37):
                for _ in range(reps * (3 if r in (2, 4, 8, 10, 16, 32, 36) else 1)):
                    t, b = str_case(rng, w, n, s == "i", r)
                    try:
                        b.decode()
                        yield f"from_str_radix {s}{cfg} {r} {hexs(b)}", t
                        if rng.randrange(4) == 0:
                            yield f"parse_str_radix {s}{cfg} {r} {hexs(b)}", t
                    except UnicodeDecodeError:
                        pass
                    t, b = str_case(rng, w, n, s == "i", r)
                    yield f"parse_bytes {s}{cfg} {r} {hexs(b)}", t
            for _ in range(6 * reps):
                t, b = str_case(rng, w, n, s == "i", 10)
                try:
                    b.decode()
                    yield f"{'str_parse' if rng.randrange(3) == 0 else 'from_str'} {s}{cfg} {hexs(b)}", t
                except UnicodeDecodeError:
                    pass
            for r in list(range(2, 40)) + [64, 100, 128, 200, 255, 256]:
                for _ in range(reps):
                    t, ds = digits_case(rng, w, n, r)
                    be = bytes(reversed(ds))
                    yield f"from_radix_be {s}{cfg} {r} {hexs(be)}", t
                    t, ds = digits_case(rng, w, n, r)
                    yield f"from_radix_le {s}{cfg} {r} {hexs(bytes(ds))}", t
            yield from bad_radix(rng, w, n, s, cfg, 4 * reps, 3 * reps)
            yield from edge_strings(rng, s, cfg)
            for r in chunk_boundary_radices(w):
                for _ in range(reps):
                    t, ds = digits_case(rng, w, n, r)
                    yield f"from_radix_be {s}{cfg} {r} {hexs(bytes(reversed(ds)))}", t + "/chunk-radix"
                    t, ds = digits_case(rng, w, n, r)
                    yield f"from_radix_le {s}{cfg} {r} {hexs(bytes(ds))}", t + "/chunk-radix"


# ---- out-of-range radix ------------------------------------------------------------------------------------------
# every entry point asserts the range BEFORE looking at the input (so: panic also for the empty string, a lone sign,
# an invalid digit, an overflowing numeral), except parse_bytes whose from_utf8 check comes first; the assert is on
# the u32, not on `radix as u8` / `radix as $Digit` (258 = 256 + 2, 272 = 256 + 16, 65552 = 2^16 + 16, 2^32 - 240 ...
# truncate to an in-range value).  64 / 100 / 255 / 256 are valid for the digit-slice API only.
BAD_STR_RADIX = [0, 1, 37, 38, 64, 100, 255, 256, 257, 258, 260, 266, 272, 292, 512, 1000, 65536, 65538, 65546, 65552,
                 (1 << 31), (1 << 32) - 254, (1 << 32) - 246, (1 << 32) - 240, (1 << 32) - 1]
BAD_DIG_RADIX = [0, 1, 257, 258, 260, 266, 272, 512, 1000, 65536, 65538, 65546, 65552, (1 << 31), (1 << 32) - 254,
                 (1 << 32) - 240, (1 << 32) - 1]
BAD_UTF8 = [b"\xff", b"\xc3", b"1\xc3", b"\x80", b"\xc0\xb1", b"\xed\xa0\x80", b"\xf4\x90\x80\x80", b"12\xe2\x82", b"+\xff", b"-\xc1"]
GOOD_UTF8_NONDIGIT = ["1\u00e9".encode(), "\uff11".encode(), "\u0663".encode(), "\U0001d7d9".encode(), b"\x00", b"1\x7f"]


def bad_radix(rng, w, n, s, cfg, k_str, k_dig):
    W = w * n
    M = 1 << W
    lim = M >> 1 if s == "i" else M

    def payload():
        c = rng.randrange(9)
        if c == 0:
            return b""
        if c == 1:
            return rng.choice([b"+", b"-"])
        if c == 2:
            return rng.choice([b"0", b"1", b"z", b"Z", b"10", b"-1", b"+1", b"00000"])
        if c == 3:
            return rng.choice([b" ", b"1 ", b" 1", b"_", b"--1", b"+-1", b"1.0", b"0x10"])
        if c == 4:
            return rng.choice(GOOD_UTF8_NONDIGIT)
        if c == 5:
            return str(rng.choice([lim - 1, lim, lim + 1, 10 * M])).encode()
        if c == 6:
            return (rng.choice(["", "-", "+"]) + numeral(rng.choice([lim - 1, lim, M, rng.randrange(M)]), rng.choice([2, 16, 36]))).encode()
        return "".join(rng.choice(DIG) for _ in range(rng.choice([1, 2, 5, W // 4 + 1]))).encode()

    for r in rng.sample(BAD_STR_RADIX, min(k_str, len(BAD_STR_RADIX))):
        b = payload()
        yield f"from_str_radix {s}{cfg} {r} {hexs(b)}", "bad-radix"
        b = payload()
        yield f"parse_str_radix {s}{cfg} {r} {hexs(b)}", "bad-radix"
        # parse_bytes: valid UTF-8 (must panic like from_str_radix) ...
        b = payload()
        yield f"parse_bytes {s}{cfg} {r} {hexs(b)}", "bad-radix"
        # ... and invalid UTF-8 (from_utf8 fails first: None)
        b = rng.choice(BAD_UTF8) if rng.random() < 0.6 else payload() + rng.choice(BAD_UTF8) + payload()
        yield f"parse_bytes {s}{cfg} {r} {hexs(b)}", "bad-radix-bad-utf8"
    for r in rng.sample(BAD_DIG_RADIX, min(k_dig, len(BAD_DIG_RADIX))):
        for op in ("from_radix_be", "from_radix_le"):
            c = rng.randrange(6)
            if c == 0:
                b = b""
            elif c == 1:
                b = bytes([rng.choice([0, 1, 2, 255])])
            elif c == 2:
                b = bytes(rng.randrange(256) for _ in range(rng.choice([2, 3, W // 8, W // 8 + 1])))
            elif c == 3:
                b = bytes([0] * rng.choice([1, W // 8 + 2]))
            elif c == 4:
                b = bytes([r % 256, 1]) if rng.random() < 0.5 else bytes([1, (r - 1) % 256])
            else:
                b = bytes(rng.randrange(2) for _ in range(rng.choice([1, W, W + 1])))
            yield f"{op} {s}{cfg} {r} {hexs(b)}", "bad-radix"


def edge_strings(rng, s, cfg):
    """tiny strings around the sign / zero / non-ASCII-digit grammar corners, a few radices each"""
    corpus = [b"0", b"-0", b"+0", b"00", b"-00", b"+00", b"-", b"+", b"", b"+-0", b"-+0", b"--0", b"++0", b" 0", b"0 ", b"0\n",
              b"0x1", b"1_0", b"1e1", b"1.", b"-1", b"+1", b"1-", b"1+", b"0-1", b"0+1", b"\x001", b"1\x00"] + GOOD_UTF8_NONDIGIT
    for b in corpus:
        r = rng.choice([2, 3, 4, 8, 10, 15, 16, 17, 32, 35, 36])
        op = rng.choice(["from_str_radix", "from_str_radix", "parse_bytes", "parse_str_radix"])
        yield f"{op} {s}{cfg} {r} {hexs(b)}", "edge-string"
    for b in rng.sample(corpus, 6):
        yield f"{rng.choice(['from_str', 'str_parse'])} {s}{cfg} {hexs(b)}", "edge-string"
    for b in rng.sample(BAD_UTF8, 3):
        yield f"parse_bytes {s}{cfg} {rng.choice([2, 10, 16, 36])} {hexs(b)}", "edge-string"


def iroot(x, k):
    lo, hi = 1, 1 << (x.bit_length() // k + 1)
    while lo < hi:
        mid = (lo + hi + 1) // 2
        if mid ** k <= x:
            lo = mid
        else:
            hi = mid - 1
    return lo


def chunk_boundary_radices(w):
    """radices r (2..=256, outside the 2..39 block that is enumerated anyway) at which the chunk size changes for this
    digit type: r^k <= 2^w - 1 < (r+1)^k  (`radix_base`), both sides of the boundary"""
    out = set()
    for k in range(1, w + 1):
        r = iroot((1 << w) - 1, k)
        for x in (r - 1, r, r + 1, r + 2):
            if 40 <= x <= 256:
                out.add(x)
    return sorted(out)


# ---- wide configurations (n > 20: 512 ... 8192 bits, every digit type, signed and unsigned) -------------------------
# A reduced but complete set: every entry point x both arms (2/4/16 packing, general chunked accumulation) x the value
# classes that decide accept / overflow / invalid, with few requests per configuration (an 8192-bit parse costs the
# Lean model ~0.1-0.5 s).
POW2_STR = [2, 4, 16]
GEN_STR = [10, 36, 3, 7, 8, 32, 35, 5, 9, 11, 13, 27]
POW2_DIG = [2, 4, 16]
GEN_DIG = [10, 255, 100, 3, 36, 37, 8, 32, 64, 128, 200, 41, 85, 139, 254]


def wide_cfgs(tier):
    out = []
    for c in [c for c in cfgs(tier) if wn(c)[1] > 20] + ["64x64"] + HUGE_CFGS:
        if c not in out:
            out.append(c)
    return out


def wide_str_case(rng, w, n, signed, r, c):
    W = w * n
    M = 1 << W
    H = M >> 1
    lim = H if signed else M
    neg = signed and rng.random() < 0.5
    sign = "-" if neg else rng.choice(["", "", "+"])
    cap = len(numeral(lim - 1, r))
    if c == "max":          # the largest accepted magnitude (negative: H itself is representable)
        z = lim if neg else lim - 1
        return "w-max", (sign + "0" * rng.choice([0, 0, 1, cap]) + numeral(z, r)).encode()
    if c == "ovf1":         # overflow by one / by the low bit pattern that the sign test of BInt looks at
        z = rng.choice([lim + 1, H + (1 << rng.randrange(W - 1)), M - 1, M, M + 1]) if neg else rng.choice([lim, lim + 1, M, M + 1] if signed else [M, M + 1])
        return "w-ovf1", (sign + "0" * rng.choice([0, 0, 2]) + numeral(z, r)).encode()
    if c == "lz":           # leading zeros take the digit count past the capacity
        z = rng.choice([0, 1, lim - 1, rng.randrange(lim), rng.randrange(1 << rng.randrange(1, W))])
        body = numeral(z, r)
        ln = rng.choice([cap + 1, cap + 2, cap + cap // 3, 2 * cap])
        return "w-lz", (sign + "0" * max(1, ln - len(body)) + body).encode()
    if c == "invalid":      # one invalid byte in a numeral too short to overflow -> InvalidDigit exactly
        ln = rng.choice([cap - 2, cap - 2, cap // 2, 3])
        body = bytearray("".join(rng.choice(DIG[:r]) for _ in range(max(1, ln))).encode())
        bad = rng.choice([b" ", b"_", b"-", b"+", b"/", b":", b"@", b"[", b"`", b"{", b"\x00", b"\x7f",
                          DIG[r].encode() if r < 36 else b"~", DIG[min(35, r)].upper().encode() if r < 36 else b"!"])
        pos = rng.choice([0, 0, 1, len(body) // 2, len(body) - 1])
        body[pos:pos + 1] = bad
        return "w-invalid", sign.encode() + bytes(body)
    if c == "invalid-long":  # over-long malformed: never accepted (kind open)
        body = bytearray(("0" * rng.choice([0, 3]) + numeral(rng.choice([M, M + 1, lim * r, rng.randrange(M) * r ** 5]), r)).encode())
        pos = rng.choice([0, len(body) // 2, len(body) - 1, len(body)])
        body[pos:pos] = rng.choice([b" ", b"-", b"\xc3\xa9", DIG[r].encode() if r < 36 else b"~"])
        return "w-invalid-long", sign.encode() + bytes(body)
    if c == "limit*r^j":
        lim2 = rng.choice([M, H]) if signed else M
        z = (lim2 + rng.randrange(0, 9)) * r ** rng.randrange(0, 45) + rng.randrange(0, 6)
        return "w-limit*r^j", (sign + numeral(z, r)).encode()
    # random digits of exactly / about the capacity length
    ln = rng.choice([cap - 1, cap, cap])
    body = rng.choice(DIG[1:r]) + "".join(rng.choice(DIG[:r]) for _ in range(ln - 1))
    if rng.random() < 0.3:
        body = "".join(ch.upper() if rng.random() < 0.5 else ch for ch in body)
    return "w-random", (sign + body).encode()


STR_CLASSES = ["max", "ovf1", "lz", "invalid", "invalid-long", "limit*r^j", "random"]


def wide_digits_case(rng, w, n, r, c):
    W = w * n
    M = 1 << W
    H = M >> 1

    def digs(z):
        ds = []
        while z:
            ds.append(z % r)
            z //= r
        return ds or [0]
    cap = len(digs(M - 1))
    if c == "max":
        return "w-max", digs(rng.choice([M - 1, M - 1, H, H - 1])) + [0] * rng.choice([0, 0, 1, cap])
    if c == "ovf1":
        return "w-ovf1", digs(rng.choice([M, M, M + 1, M + r, M * r])) + [0] * rng.choice([0, 0, 3])
    if c == "lz":
        return "w-lz", digs(rng.choice([0, 1, M - 1, rng.randrange(M)])) + [0] * rng.choice([cap, cap + 1, 2 * cap])
    if c == "bad-digit":
        ds = [rng.randrange(r) for _ in range(rng.choice([1, 3, cap - 1, cap, cap + 3]))]
        if r < 256:
            ds[rng.choice([0, len(ds) // 2, len(ds) - 1])] = min(255, r + rng.choice([0, 0, 1, 255 - r]))
        return "w-bad-digit", ds
    if c == "limit*r^j":
        return "w-limit*r^j", digs((M + rng.randrange(0, 9)) * r ** rng.randrange(0, 45) + rng.randrange(0, 6))
    return "w-random", [rng.randrange(r) for _ in range(rng.choice([cap - 1, cap]) - 1)] + [rng.randrange(1, r)]


DIG_CLASSES = ["max", "ovf1", "lz", "bad-digit", "limit*r^j", "random"]


# the general (chunked) arm costs the Lean model O(N * digits): ration it on the u8 / u16 digit types at 8192 bits
GEN_ARM_BUDGET = {"8x1024": {"str": 3, "dig": 2, "oth": 2}, "16x512": {"str": 6, "dig": 4, "oth": 4}}


def wide(rng, tier):
    for cfg in wide_cfgs(tier):
        w, n = wn(cfg)
        reps = (2 if tier == "thorough" else 1)
        huge = w * n > 4096
        for s in "ui":
            sg = s == "i"
            left = {k: v * reps for k, v in GEN_ARM_BUDGET.get(cfg, {"str": 10 ** 9, "dig": 10 ** 9, "oth": 10 ** 9}).items()}

            def general(kind, pool, fallback):
                if left[kind] > 0:
                    left[kind] -= 1
                    return rng.choice(pool)
                return rng.choice(fallback)
            for _ in range(reps):
                # the deciding classes first (they get the general-arm budget), the rest in random order
                str_classes = STR_CLASSES[:2] + rng.sample(STR_CLASSES[2:], len(STR_CLASSES) - 2)
                dig_classes = DIG_CLASSES[:2] + rng.sample(DIG_CLASSES[2:], len(DIG_CLASSES) - 2)
                # from_str_radix: every class on one packing radix and one general radix
                for i, c in enumerate(str_classes):
                    rs = (rng.choice(POW2_STR), general('str', GEN_STR, POW2_STR))
                    if huge and i >= 3:         # 8192 bits: both arms for the deciding classes, alternate for the rest
                        rs = rs[(i + sg) % 2:][:1]
                    for r in rs:
                        t, b = wide_str_case(rng, w, n, sg, r, c)
                        try:
                            b.decode()
                        except UnicodeDecodeError:
                            yield f"parse_bytes {s}{cfg} {r} {hexs(b)}", t
                            continue
                        yield f"from_str_radix {s}{cfg} {r} {hexs(b)}", t
                # digit slices, both byte orders: every class on one packing radix, one general radix, and 256
                for i, c in enumerate(dig_classes):
                    rs = (rng.choice(POW2_DIG), general('dig', GEN_DIG, POW2_DIG), 256)
                    if huge and i >= 2:
                        rs = rs[(i + sg) % 3:][:1]
                    for r in rs:
                        if r == 256 and (i + sg) % 2 and not huge:
                            continue
                        t, ds = wide_digits_case(rng, w, n, r, c)
                        if rng.random() < 0.5:
                            yield f"from_radix_be {s}{cfg} {r} {hexs(bytes(reversed(ds)))}", t
                        else:
                            yield f"from_radix_le {s}{cfg} {r} {hexs(bytes(ds))}", t
                # parse_bytes / from_str / str_parse / parse_str_radix: every class once, radix alternating between arms
                for i, c in enumerate(str_classes):
                    r = rng.choice(POW2_STR) if (i + sg) % 2 else general('oth', GEN_STR[:4], POW2_STR)
                    t, b = wide_str_case(rng, w, n, sg, r, c)
                    yield f"parse_bytes {s}{cfg} {r} {hexs(b)}", t
                for c in rng.sample(STR_CLASSES, 3 if left['oth'] > 2 else 1):
                    t, b = wide_str_case(rng, w, n, sg, 10, c)
                    try:
                        b.decode()
                        yield f"{rng.choice(['from_str', 'str_parse'])} {s}{cfg} {hexs(b)}", t
                    except UnicodeDecodeError:
                        pass
                c = rng.choice(["max", "ovf1", "lz", "invalid"])
                r = general('oth', GEN_STR[:2], POW2_STR) if rng.random() < 0.5 else rng.choice(POW2_STR)
                t, b = wide_str_case(rng, w, n, sg, r, c)
                yield f"parse_str_radix {s}{cfg} {r} {hexs(b)}", t
                # invalid UTF-8 inside a long numeral
                r = rng.choice([2, 4, 16])
                t, b = wide_str_case(rng, w, n, sg, r, "random")
                k = rng.choice([0, len(b) // 2, len(b)])
                yield f"parse_bytes {s}{cfg} {r} {hexs(b[:k] + rng.choice(BAD_UTF8) + b[k:])}", "w-bad-utf8"
            yield from bad_radix(rng, w, n, s, cfg, 3, 2)


def length_sweep(rng, tier):
    """numerals of EVERY length 1 .. capacity+2 (chunked accumulation: a length that is a multiple of the chunk
    size, plus one, minus one, ...), three digit patterns per length, for a few radices and configurations"""
    for cfg in ["8x3", "16x3", "64x2", "8x17"] + (["32x3", "64x5", "16x9"] if tier == "thorough" else []):
        w, n = wn(cfg)
        M = 1 << (w * n)
        for r in (2, 3, 7, 10, 16, 36) + ((5, 8, 32, 35) if tier == "thorough" else ()):
            cap = len(numeral(M - 1, r))
            for L in range(1, cap + 3):
                pats = ["1" + "0" * (L - 1), DIG[r - 1] * L,
                        rng.choice(DIG[1:r]) + "".join(rng.choice(DIG[:r]) for _ in range(L - 1)),
                        "1" + "0" * (L - 2) + "1" if L > 1 else "1"]
                for k, body in enumerate(pats):
                    s = "ui"[(L + k) & 1]
                    sign = "-" if (s == "i" and k == 1) else ("+" if k == 2 and L % 3 == 0 else "")
                    b = (sign + body).encode()
                    yield f"from_str_radix {s}{cfg} {r} {hexs(b)}", "length-sweep"
                    if k == 0:
                        yield f"parse_bytes {s}{cfg} {r} {hexs(b)}", "length-sweep"
                ds = bytes(rng.randrange(r) for _ in range(L - 1)) + bytes([rng.randrange(1, r)])
                yield f"from_radix_le u{cfg} {r} {hexs(ds)}", "length-sweep"
                yield f"from_radix_be i{cfg} {r} {hexs(ds[::-1])}", "length-sweep"


def gen(rng, tier):
    yield from _gen_main(rng, tier)
    yield from length_sweep(rng, tier)
    yield from wide(rng, tier)
    yield from _prim.utf8(rng, tier)


def ROUTE(line):
    return _ws.route(line, None, _route_inner)
