#!/usr/bin/env python3
"""One entry point for every property check:  ./check.py C07 [--tier quick|thorough] [--replay f]

Steps (DESIGN.md §2, §5):
 1. proof obligations: `lake build Bnum.Props.Cxx bnum_driver`, axiom audit of every property
    theorem, forbidden-token scan;
 2. (glue properties) regenerate Lean tables from /repo's source and re-check their theorems;
 3. build the Rust harness bin against /repo's *current working tree* (dbg and rel profiles);
 4. generate cases (corpus first), run real crate and Lean driver (model + spec) on the same lines;
 5. classify: R not in Sp -> property violated on a concrete input (unless a listed known finding);
    R != Mo / proof obligation broken -> search further, else `no-failing-input-found`.
Exit 0 = held on everything explored; 1 = VIOLATION line printed; 2 = the checker itself is broken.
"""
import argparse
import importlib
import json
import os
import random
import re
import subprocess
import sys
import time

ROOT = os.path.dirname(os.path.abspath(__file__))
LEAN = os.path.join(ROOT, "lean")
HARNESS = os.path.join(ROOT, "harness")
EVID = os.path.join(ROOT, "evidence")
REPLAYS = os.path.join(EVID, "replays")
ALLOWED_AXIOMS = {"propext", "Classical.choice", "Quot.sound"}
FORBIDDEN = re.compile(r"\b(sorry|admit|native_decide|bv_decide|implemented_by)\b|^\s*axiom\s|^\s*unsafe\s|maxHeartbeats\s+0\b")

TRUSTED_BASE = [
    "Lean 4.33 kernel (theorems re-checked by `lake build`; thorough tier also runs leanchecker)",
    "axioms per theorem limited to propext, Classical.choice, Quot.sound (audited by #print axioms)",
    "Rust primitive integer semantics as modelled in lean/Bnum/Model/Digit.lean (Prim.*)",
    "correspondence check: gen/*.py generators, harness dispatch, Lean compiler producing bnum_driver from the same definitions the theorems are about",
]


# extension modules and the properties whose theorems they build on (audited in those properties' thorough tier)
LAW_MODULES = {"Laws": ("C01", "C02", "C03", "C05", "C06", "C07", "C08"),
               "Laws2": ("C03", "C06", "C07", "C08", "C11", "C18"),
               "Laws3": ("C09", "C10", "C11", "C12", "C13", "C14", "C15", "C19")}


# which all-widths sweeps (gen/widthsweep.py) each property's check runs, in both tiers
SWEEPS = {
    "C01": ["addsub"], "C02": ["mul"], "C03": ["rem"], "C05": ["shift"], "C06": ["count"], "C07": ["cmp"],
    "C08": ["ilog", "pow"], "C10": ["parse_print", "from_radix"], "C11": ["print_"], "C14": ["floats"],
    "C15": ["slices"], "C16": ["mul", "print_"], "C17": ["parse_print"], "C18": ["roots"],
}


def env_offline():
    e = dict(os.environ)
    e["CARGO_NET_OFFLINE"] = "true"
    e.pop("RUSTFLAGS", None)  # harness/.cargo/config.toml sets --cfg bnum_verif
    return e


def run(cmd, cwd=None, inp=None, timeout=None, env=None):
    p = subprocess.run(cmd, cwd=cwd, input=inp, capture_output=True, text=True, timeout=timeout, env=env)
    return p.returncode, p.stdout, p.stderr


# ------------------------------------------------------------------ proof obligations

def strip_comments(src):
    # remove /- ... -/ (nested) and -- ... comments
    out = []
    i = 0
    depth = 0
    n = len(src)
    while i < n:
        if src.startswith("/-", i):
            depth += 1
            i += 2
        elif depth and src.startswith("-/", i):
            depth -= 1
            i += 2
        elif depth:
            if src[i] == "\n":
                out.append("\n")
            i += 1
        elif src.startswith("--", i):
            while i < n and src[i] != "\n":
                i += 1
        else:
            out.append(src[i])
            i += 1
    return "".join(out)


def forbidden_scan():
    hits = []
    for d, _, fs in os.walk(os.path.join(LEAN, "Bnum")):
        for f in fs:
            if f.endswith(".lean"):
                p = os.path.join(d, f)
                for ln, line in enumerate(strip_comments(open(p).read()).split("\n"), 1):
                    if FORBIDDEN.search(line):
                        hits.append(f"{os.path.relpath(p, ROOT)}:{ln}: {line.strip()[:100]}")
    return hits


def proof_step(pid, tier, log):
    """Returns dict(ok, obligations, discharged, theorems, problems)."""
    res = {"ok": True, "obligations": 0, "discharged": 0, "theorems": [], "problems": []}
    props = os.path.join(LEAN, "Bnum", "Props", pid + ".lean")
    audit = os.path.join(LEAN, "Bnum", "Audit", pid + ".lean")
    if not os.path.exists(props):
        res["ok"] = False
        res["problems"].append(f"missing {props}")
        return res
    targets = [f"Bnum.Props.{pid}", "bnum_driver"]
    rc, out, err = run(["lake", "build"] + targets, cwd=LEAN, timeout=3600)
    log.append(("lake build", rc, (out + err)[-3000:]))
    if rc != 0:
        res["ok"] = False
        res["problems"].append("lake build failed: " + (out + err)[-1500:])
        return res
    hits = forbidden_scan()
    if hits:
        res["ok"] = False
        res["problems"].append("forbidden tokens: " + "; ".join(hits[:10]))
    if os.path.exists(audit):
        # the audit module is built by lake too: its `#print axioms` output is part of the build log and is
        # replayed from the cache when nothing changed (re-elaborated whenever a dependency changed)
        rc, out, err = run(["lake", "build", f"Bnum.Audit.{pid}"], cwd=LEAN, timeout=1800)
        log.append(("audit", rc, (out + err)[-3000:]))
        if rc != 0:
            res["ok"] = False
            res["problems"].append("audit failed: " + (out + err)[-1500:])
        text = out + err
        if "depends on axioms" not in text and "does not depend on any axioms" not in text:
            # cache without a replayable log: elaborate the audit file directly
            rc, out, err = run(["lake", "env", "lean", audit], cwd=LEAN, timeout=1800)
            text = out + err
        # "'Bnum.foo' depends on axioms: [propext, Quot.sound]"  /  "'Bnum.foo' does not depend on any axioms"
        for m in re.finditer(r"'(\S+)' (depends on axioms: \[([^\]]*)\]|does not depend on any axioms)", text, re.S):
            name = m.group(1)
            axs = set(a.strip() for a in (m.group(3) or "").replace("\n", " ").split(",") if a.strip())
            res["obligations"] += 1
            bad = axs - ALLOWED_AXIOMS
            if bad:
                res["ok"] = False
                res["problems"].append(f"theorem {name} depends on unexpected axioms {sorted(bad)}")
            else:
                res["discharged"] += 1
                res["theorems"].append(name)
    else:
        res["ok"] = False
        res["problems"].append(f"missing {audit}")
    if res["obligations"] == 0:
        res["ok"] = False
        res["problems"].append("no audited theorem")
    if tier == "thorough" and res["ok"]:
        mods = [f"Bnum.Props.{pid}"]
        rc, out, err = run(["lake", "env", "leanchecker"] + mods, cwd=LEAN, timeout=3600)
        log.append(("leanchecker", rc, (out + err)[-2000:]))
        if rc != 0:
            res["ok"] = False
            res["problems"].append("leanchecker rejected: " + (out + err)[-1000:])
    if tier == "thorough":
        # extension beyond the twenty properties: the algebraic and cross-module laws of Props/Laws*.lean are
        # corollaries of the property theorems over the same model.  A failure here is reported as a WARNING
        # and in the evidence, never as a violation of a listed property.
        res["extra_laws"] = []
        for lawmod, pids in LAW_MODULES.items():
            if pid not in pids:
                continue
            rc, out, err = run(["lake", "build", f"Bnum.Audit.{lawmod}"], cwd=LEAN, timeout=7200)
            text = out + err
            if rc == 0 and "depends on axioms" not in text:
                rc, out, err = run(["lake", "env", "lean", os.path.join(LEAN, "Bnum", "Audit", lawmod + ".lean")], cwd=LEAN, timeout=7200)
                text = out + err
            laws = re.findall(r"'(\S+)' (?:depends on axioms: \[([^\]]*)\]|does not depend on any axioms)", text, re.S)
            bad = [n for n, ax in laws if set(a.strip() for a in ax.replace("\n", " ").split(",") if a.strip()) - ALLOWED_AXIOMS]
            rc2 = 1
            if rc == 0:
                rc2, o2, e2 = run(["lake", "env", "leanchecker", f"Bnum.Props.{lawmod}"], cwd=LEAN, timeout=7200)
                text += o2 + e2
            res["extra_laws"].append({"module": f"Bnum.Props.{lawmod}", "build_ok": rc == 0, "leanchecker_ok": rc2 == 0,
                                      "laws_audited": len(laws), "unexpected_axioms": bad})
            if rc != 0 or rc2 != 0 or bad or not laws:
                print(f"WARNING: extension module Bnum.Props.{lawmod} (not one of the listed properties) no longer checks: " + (text[-300:] if rc else str(bad)))
    return res


def translator_step(pid, log):
    """Run gen/translate.py --check and relate its report to property `pid` (via srcmap/deps.json)."""
    res = {"ran": True, "tied": 0, "broken": [], "relevant_broken": [], "tied_functions_this_property_executes": 0}
    try:
        rc, out, err = run([sys.executable, os.path.join(ROOT, "gen", "translate.py"), "--check"], cwd=ROOT, timeout=3600)
        rep = json.loads(out[out.index("{"):])
        from gen import srcmap
        deps = json.load(open(srcmap.DEPS)).get(pid, {"functions": []})
        mine = set(re.sub(r"#\d+$", "", k) for k in deps["functions"])        # "buint/checked.rs::checked_add"
        exp = json.load(open(os.path.join(ROOT, "gen", "translate_expected.json")))
        exp = exp if isinstance(exp, list) else exp.get("functions", exp.get("tied", []))
        res["tied"] = len(rep.get("tied", []))
        res["tied_functions_this_property_executes"] = sum(1 for e in exp if isinstance(e, dict) and (e.get("file", "").replace("src/", "", 1) + "::" + e.get("fn", "")) in mine)
        res["broken"] = [{k: b.get(k) for k in ("key", "file", "fn", "reason")} for b in rep.get("broken", [])]
        fp_names = set(re.sub(r"#\d+$", "", k) for k in json.load(open(srcmap.FP))["functions"])

        def relevant(b):
            f, fn = (b["file"] or "").replace("src/", "", 1), b["fn"] or ""
            if f + "::" + fn in fp_names:
                return f + "::" + fn in mine
            return f in set(deps.get("files", []))      # fn name is a macro metavariable in the source (`fn $method`): file level
        res["relevant_broken"] = [b for b in res["broken"] if relevant(b)]
        for k in ("error", "frontend_errors", "forbidden_tokens", "untied_new_failures"):
            if rep.get(k):
                res[k] = str(rep[k])[:500]
        res["wall_s"] = rep.get("wall_s")
    except Exception as e:      # the translator is a second tie: its own failure is reported, never turned into a verdict
        res["error"] = repr(e)[:300]
        print("WARNING: delegation translator did not run: " + res["error"])
    log.append(("translator", 0, json.dumps(res)[:1500]))
    return res


# ------------------------------------------------------------------ harness

def build_harness(binname, log, features=None, toolchain=None, nightly=False):
    bins = {}
    profiles = (("dbg", [], "debug"), ("rel", ["--profile", "rel"], "rel"))
    if binname.startswith("widths") or binname.endswith("w"):
        # all-widths sweep bins (1024 instantiations): unoptimised profiles, same debug-assertion / overflow-check split
        profiles = (("dbg", ["--profile", "w0"], "w0"), ("rel", ["--profile", "w0rel"], "w0rel"))
    for prof, flag, sub in profiles:
        cmd = ["cargo"] + ([toolchain] if toolchain else []) + ["build", "--offline", "--bin", binname] + flag
        if features:
            cmd += ["--features", features]
        rc, out, err = run(cmd, cwd=HARNESS, env=env_offline(), timeout=3600)
        errs = "\n".join(l for l in err.split("\n") if l.startswith("error") or "panicked" in l)
        log.append((" ".join(cmd), rc, errs[-2000:]))
        if rc != 0:
            return None, "harness build failed (%s): %s" % (prof, (errs or err)[-1500:])
        bins[prof] = os.path.join(HARNESS, "target", sub, binname)
    if nightly:
        # methods gated behind bnum's `nightly` feature (to_*_bytes / from_*_bytes): separate toolchain + target dir
        cmd = ["cargo", "+nightly", "build", "--offline", "--bin", binname, "--features", "nightly" + ("," + features if features else ""),
               "--target-dir", os.path.join(HARNESS, "target", "nightly")]
        rc, out, err = run(cmd, cwd=HARNESS, env=env_offline(), timeout=3600)
        errs = "\n".join(l for l in err.split("\n") if l.startswith("error") or "panicked" in l)
        log.append((" ".join(cmd), rc, errs[-2000:]))
        if rc != 0:
            return None, "harness build failed (nightly): %s" % ((errs or err)[-1500:])
        bins["nightly"] = os.path.join(HARNESS, "target", "nightly", "debug", binname)
    return bins, None


# A request that never returns (a non-terminating loop) must not hang the check: every chunk runs under a timeout; the
# harness flushes each answer, so the number of answers received identifies the request, which is answered `TIMEOUT`
# (never allowed by any spec -> reported as a violation with that request as the replay).  After the first timeout the
# limit drops, and after a few more the remaining requests of that binary are skipped.
TIMEOUTS = {"first": float(os.environ.get("VERIF_CHUNK_TIMEOUT", "420")), "later": 60.0, "max": 4,
            "single": float(os.environ.get("VERIF_SINGLE_TIMEOUT", "300")), "single_later": 60.0}
_timeouts_seen = {}


def run_lines(exe, lines, cwd=None, limit="auto"):
    inp = "\n".join(lines) + "\n"
    seen = _timeouts_seen.get(exe, 0)
    is_crate = os.sep + "harness" + os.sep in exe
    if limit == "auto":
        limit = None if not is_crate else (TIMEOUTS["first"] if seen == 0 else TIMEOUTS["later"])
    try:
        p = subprocess.run([exe], input=inp, capture_output=True, text=True, cwd=cwd, timeout=limit)
        stdout, rc, timed_out = p.stdout, p.returncode, False
    except subprocess.TimeoutExpired as e:
        stdout = e.stdout or ""
        if isinstance(stdout, bytes):
            stdout = stdout.decode("utf-8", "replace")
        rc, timed_out = -9, True
        _timeouts_seen[exe] = seen + 1
    out = stdout.split("\n")
    if out and out[-1] == "":
        out.pop()
    elif timed_out and out:
        out.pop()          # a partially written last answer
    if len(out) != len(lines):
        # a hard abort (stack overflow, alloc failure) or a timeout: the first unanswered request is the culprit
        return out + ["TIMEOUT" if timed_out else "ABORT"] * (len(lines) - len(out)), rc
    return out, rc


def run_chunked(exe, lines, chunk=20000):
    """Run in chunks so that an aborting / non-terminating case loses only its own answer."""
    res = []
    i = 0
    while i < len(lines):
        if _timeouts_seen.get(exe, 0) > TIMEOUTS["max"]:
            res += ["skip"] * (len(lines) - i)
            break
        part = lines[i:i + chunk]
        out, rc = run_lines(exe, part)
        k = len([o for o in out if o not in ("ABORT", "TIMEOUT")])
        if k == len(part):
            res += out
            i += len(part)
        else:
            ans = out[k]
            if ans == "TIMEOUT":
                # slow or hung?  The limit was on the whole chunk, and on a busy machine (or with the unoptimised
                # all-widths bins) a chunk of legitimate requests can exceed it.  Only a request that does not return
                # when it is run ALONE, with a generous limit of its own, is answered TIMEOUT.
                seen = _timeouts_seen.get(exe, 1)
                single, _ = run_lines(exe, [part[k]], limit=TIMEOUTS["single"] if seen <= 1 else TIMEOUTS["single_later"])
                ans = single[0]
                # `seen` already counts the chunk's timeout: a confirmed hang is counted once, a disproved one not at all
                _timeouts_seen[exe] = seen if ans in ("TIMEOUT", "ABORT") else max(0, seen - 1)
            res += out[:k] + [ans]
            i += k + 1
    return res


# ------------------------------------------------------------------ comparison

def sp_match(r, sp):
    if r in ("TIMEOUT", "ABORT"):
        return False       # a request that never returns / kills the process is allowed by no property
    for alt in sp.split("|"):
        if alt == r:
            return True
        if "*" in alt:
            rx = "^" + ".*".join(re.escape(p) for p in alt.split("*")) + "$"
            if re.match(rx, r):
                return True
    return False


def load_known():
    p = os.path.join(ROOT, "known_findings.json")
    if not os.path.exists(p):
        return []
    return json.load(open(p)).get("findings", [])


def finding_matches(f, pid, line, r, sp, mode):
    if f.get("property") != pid or f.get("status") != "open":
        return False
    toks = line.split(" ")
    op, cfg, args = toks[0], toks[1], toks[2:]
    if not re.fullmatch(f.get("op", ".*"), op):
        return False
    if not re.fullmatch(f.get("cfg", ".*"), cfg):
        return False
    pred = f.get("pred")
    if pred:
        m = re.fullmatch(r"([ui])(\d+)x(\d+)", cfg)
        env = {"op": op, "cfg": cfg, "args": args, "R": r, "Sp": sp, "mode": mode, "re": re}
        if m:
            env.update(signed=(m.group(1) == "i"), w=int(m.group(2)), n=int(m.group(3)), W=int(m.group(2)) * int(m.group(3)))
        try:
            return bool(eval(pred, {"__builtins__": {"int": int, "len": len, "abs": abs, "min": min, "max": max, "any": any, "all": all, "str": str, "bool": bool}}, env))
        except Exception:
            return False
    return True


def shrink(v, answer, known, pid, rounds=8):
    """Greedy operand shrinking of one violating request: zero out / drop parts of its hex operands while the
    real crate's answer (same build mode) is still not allowed by the spec.  Returns the smallest request found."""
    mode = v["mode"]
    best = dict(v)

    def size(line):
        return (len(line), sum(c != "0" for c in line.split(" ", 2)[-1]))

    for _ in range(rounds):
        toks = best["line"].split(" ")
        cands = set()
        for ti in range(2, len(toks)):
            t = toks[ti]
            if not re.fullmatch(r"[0-9a-f]+", t) or t in ("0", "00"):
                continue
            even = len(t) % 2 == 0 and len(t) > 2
            outs = {"0" if not even else "00", "1" if not even else "01"}
            h = len(t) // 2
            if even and h % 2:
                h += 1
            if 0 < h < len(t):
                outs.add(t[h:].lstrip("0") or "0" if not even else t[h:])
                outs.add(t[:h] + "0" * (len(t) - h))
                outs.add(t[:h] if (not even or h % 2 == 0) else t)
            step = 2
            pos = list(range(0, len(t) - 1, step))
            if len(pos) > 24:
                pos = pos[:: len(pos) // 24 + 1]
            for k in pos:
                if t[k:k + 2] != "00":
                    z = t[:k] + "00" + t[k + 2:]
                    outs.add(z if even else (z.lstrip("0") or "0"))
            for o in outs:
                if o and o != t:
                    cands.add(" ".join(toks[:ti] + [o] + toks[ti + 1:]))
        cands = sorted(c for c in cands if size(c) < size(best["line"]))
        if not cands:
            break
        R, ms = answer(cands)
        better = None
        for i, c in enumerate(cands):
            r = R.get(mode, [None] * len(cands))[i]
            if r in (None, "skip", "bad-op") or "\t" not in ms[i] or ms[i] == "bad-op":
                continue
            mo, sp = ms[i].split("\t", 1)
            if sp_match(r, sp) or any(finding_matches(f, pid, c, r, sp, mode) for f in known):
                continue
            if better is None or size(c) < size(better["line"]):
                better = {"line": c, "mode": mode, "crate": r, "spec": sp, "model": mo}
        if better is None:
            break
        best = better
    best["from"] = v["line"]
    return best


def nontrivial(line):
    toks = line.split(" ")[2:]
    return any(t not in ("0", "1", "-", "dbg", "rel") for t in toks)


def main():
    ap = argparse.ArgumentParser()
    ap.add_argument("pid")
    ap.add_argument("--tier", default=os.environ.get("VERIF_TIER", "quick"))
    ap.add_argument("--replay")
    ap.add_argument("--seed", type=int, default=int(os.environ.get("VERIF_SEED", "1")))
    ap.add_argument("--skip-proof", action="store_true", help="(development only) skip the Lean build/audit")
    ap.add_argument("--force-escalate", action="store_true", help="run the correspondence step with the thorough generators (used by the failing-input search)")
    a = ap.parse_args()
    pid, tier, seed = a.pid, a.tier, a.seed
    if tier not in ("quick", "thorough"):
        tier = "quick"
    t0 = time.time()
    os.makedirs(REPLAYS, exist_ok=True)
    log = []
    mod = importlib.import_module("gen." + pid.lower())
    binname = getattr(mod, "HARNESS_BIN", pid.lower())
    rng = random.Random(seed * 1000003 + int(pid[1:]))

    # 1. proof obligations
    if a.skip_proof:
        proof = {"ok": True, "obligations": 0, "discharged": 0, "theorems": [], "problems": ["skipped"]}
        rc, out, err = run(["lake", "build", "bnum_driver"], cwd=LEAN, timeout=3600)
    else:
        proof = proof_step(pid, tier, log)
    extra_problems = []
    # 2. property-specific static step (translator etc.)
    ctx = {"pid": pid, "tier": tier, "seed": seed, "root": ROOT, "lean": LEAN, "harness": HARNESS, "log": log, "run": run}
    if hasattr(mod, "pre"):
        extra_problems += mod.pre(ctx) or []

    # 2b. source drift (gen/srcmap.py): has any function this property's correspondence run executes changed since the
    # model was last reconciled with /repo (srcmap/fingerprint.json)?  A change is not an alarm (a rewrite can be harmless);
    # it makes the quick tier *search harder*: the correspondence step below runs with the thorough generators, sweeps and
    # bins (`gtier`), while the proof step keeps the requested tier.
    gtier = tier
    drift = {"relevant": False, "changed": [], "all_changed": []}
    if not a.replay and os.environ.get("VERIF_NO_ESCALATE") != "1":
        try:
            from gen import srcmap
            drift = srcmap.drift_for(pid)
        except Exception as e:
            drift = {"relevant": True, "changed": ["<source map failed: %r>" % (e,)], "all_changed": []}
    if (drift["relevant"] or a.force_escalate) and tier == "quick":
        gtier = "thorough"
        if drift["relevant"]:
            print(f"NOTE: /repo/src differs from the source the model was reconciled with in code this property's run executes "
                  f"({len(drift['changed'])} items, e.g. {', '.join(drift['changed'][:4])}); escalating the correspondence run to the thorough generators")

    # 2c. static tie of the delegation layer (gen/translate.py, docs/translator.md): the Rust bodies of ~800 forwarding
    # functions are re-parsed from /repo/src, translated to Lean terms over the hand model, and the kernel re-checks
    # `model function = translated body` for each (lean/Bnum/Generated/Deleg.lean).  A broken equation means the code no
    # longer performs the delegation the model mirrors.  Like source drift it is not an alarm by itself (the differential
    # run below is the tie every property's verdict rests on, and an equivalent re-delegation is harmless): it is printed
    # as a WARNING, recorded in the evidence, and escalates the correspondence run of the properties that execute the function.
    trans = {"ran": False}
    if not a.replay and os.environ.get("VERIF_NO_TRANSLATOR") != "1":
        trans = translator_step(pid, log)
        if trans.get("relevant_broken") and tier == "quick" and os.environ.get("VERIF_NO_ESCALATE") != "1":
            gtier = "thorough"
        for b in trans.get("relevant_broken", [])[:6]:
            print(f"WARNING: static tie lost for {b['key']} ({b['file']}): {b['reason']}; the correspondence run of {pid} is escalated")

    # 2d. neighbouring entry points.  A property's statement also binds the *other public routes* to the same operation
    # (the operator traits of C17, the num-traits / num-integer impls of C18): `mod.NEIGHBOURS = {"C17": regex, ...}` makes
    # this run include the neighbour generator's requests whose operation matches, answered by the neighbour's harness bin.
    neighbour_cases, neighbour_route = [], {}
    if a.replay:
        # a recorded request that came from a neighbour's vocabulary is answered by the neighbour's bin again
        try:
            rp_lines = [c["line"] for c in json.load(open(a.replay)).get("cases", []) if "line" in c]
        except Exception:
            rp_lines = []
        for npid, rx in (getattr(mod, "NEIGHBOURS", None) or {}).items():
            nmod = importlib.import_module("gen." + npid.lower())
            nbin = getattr(nmod, "HARNESS_BIN", npid.lower())
            nroute = getattr(nmod, "ROUTE", None) or (lambda l, _b=nbin: _b)
            for l in rp_lines:
                if re.match(rx, l) and l not in neighbour_route:
                    neighbour_route[l] = nroute(l)
    if not a.replay:
        for npid, rx in (getattr(mod, "NEIGHBOURS", None) or {}).items():
            nmod = importlib.import_module("gen." + npid.lower())
            nbin = getattr(nmod, "HARNESS_BIN", npid.lower())
            nroute = getattr(nmod, "ROUTE", None) or (lambda l, _b=nbin: _b)
            rxc = re.compile(rx)
            nrng = random.Random(seed * 1000003 + int(npid[1:]) + 7777 * int(pid[1:]))
            for c in nmod.gen(nrng, tier):
                if rxc.match(c[0]) and c[0] not in neighbour_route:
                    b = nroute(c[0])
                    if b.startswith("widths") or b.endswith("w"):
                        continue                      # the neighbour's all-widths material stays with the neighbour
                    neighbour_route[c[0]] = b
                    neighbour_cases.append((c[0], "neighbour-" + npid) + tuple(c[2:]))

    # 3. harness
    from gen import widthsweep as _wsweep
    # the all-widths sweeps keep the REQUESTED tier under escalation: the every-N versions of the N^2 / N^3 operations
    # (parse, print, ilog, pow, roots on unoptimised bins) would make a quick check of changed code take tens of minutes
    _wsweep.set_tier(gtier if os.environ.get("VERIF_ESCALATE_SWEEPS") == "1" else tier)
    sweeps = [] if a.replay else SWEEPS.get(pid, [])
    multi = getattr(mod, "HARNESS_BINS", None)
    if neighbour_route:
        multi = list(multi or [binname]) + sorted(set(neighbour_route.values()) - set(multi or [binname]))
        _inner0 = getattr(mod, "ROUTE", None) or (lambda l, _b=binname: _b)
        mod.ROUTE = lambda l, _i=_inner0: neighbour_route.get(l) or _i(l)
    if sweeps or a.replay:
        # all-widths sweep bins (gen/widthsweep.py, tools/gen_widths.py), used by both tiers: requests for a u8xN / i8xN
        # configuration outside the standard lists are answered by them whatever the property's own routing says
        multi = list(multi or [binname]) + [b for b in _wsweep.BINS if b not in (multi or [])]
        inner = getattr(mod, "ROUTE", None) or (lambda l, _b=binname: _b)
        sweep_lines = set()
        u8cfg = re.compile(r"\S+ [ui]8x\d+ ")
        mod.ROUTE = lambda l, _i=inner: (((l in sweep_lines) or _wsweep.is_sweep(l) or (a.replay and u8cfg.match(l + " "))) and _wsweep.sweep_bin(l)) or _i(l)
    if gtier == "thorough" and getattr(mod, "HARNESS_BINS_THOROUGH", None):
        # extra (slow to build) bins used by the thorough tier only, e.g. the all-widths sweep
        multi = list(multi or [binname]) + list(mod.HARNESS_BINS_THOROUGH)
        if not hasattr(mod, "ROUTE"):
            mod.ROUTE = lambda l, _b=binname: _b
    if multi:
        # cross-cutting property: requests are routed to the harness bins of several vocabularies
        allbins, herr = {}, None
        for b in multi:
            if b in allbins:
                continue
            own = (b == binname)
            bb, e = build_harness(b, log, features=getattr(mod, "FEATURES", None) if own else None, nightly=getattr(mod, "NIGHTLY", False) if own else False)
            if bb is None:
                herr = e
                break
            allbins[b] = bb
        bins = None if herr else {m: "multi" for m in sorted(set(k for bb in allbins.values() for k in bb))}
    else:
        allbins = None
        bins, herr = build_harness(binname, log, features=getattr(mod, "FEATURES", None), nightly=getattr(mod, "NIGHTLY", False))
    driver = os.path.join(LEAN, ".lake", "build", "bin", "bnum_driver")
    if not os.path.exists(driver):
        print("internal error: bnum_driver not built\n" + "\n".join(str(x) for x in log[-3:]))
        sys.exit(2)

    # 4. cases
    cases = []
    if a.replay:
        rp = json.load(open(a.replay))
        cases = [(c["line"], "replay") for c in rp.get("cases", [])]
    else:
        cdir = os.path.join(ROOT, "corpus", pid)
        if os.path.isdir(cdir):
            for f in sorted(os.listdir(cdir)):
                for l in open(os.path.join(cdir, f)):
                    l = l.strip()
                    if l and not l.startswith("#"):
                        cases.append((l, "corpus"))
        ctx["line_offset"] = len(cases)
        own = list(mod.gen(rng, tier))
        if gtier != tier:
            # escalated search (source drift / lost static tie / failing-input search): the thorough generator's requests
            # on top of the quick ones, sampled down to a multiple of the quick volume so that the run time stays a small
            # multiple of the quick run's (the list-based Lean model, not the crate, is the slow side)
            have = set(c[0] for c in own)
            rng2 = random.Random(seed * 31 + 7 + int(pid[1:]))
            extra = [c for c in mod.gen(rng2, gtier) if c[0] not in have]
            cap = int(float(os.environ.get("VERIF_ESCALATION_FACTOR", "3")) * max(len(own), 20000))
            if len(extra) > cap:
                keep = set(rng2.sample(range(len(extra)), cap))
                extra = [c for i, c in enumerate(extra) if i in keep]
            own += extra
        cases += own
        cases += neighbour_cases
        # all-widths sweep of this property's width-sensitive operations (every N = 1..1024 of the u8-digit types)
        srng = random.Random(seed * 7919 + int(pid[1:]))
        for name in sweeps:
            sw = list(_wsweep.SWEEPS[name](srng))
            sweep_lines.update(x[0] for x in sw)
            cases += sw
    lines = [c[0] for c in cases]
    tags = [c[1] for c in cases]
    # optional third component: the answer computed by the generator with exact Python integers (all-widths sweep).
    # Such a request is sent to the real crate first; the Lean driver (model + spec) is consulted when the crate's
    # answer differs from it (so the Lean spec judges every reported violation) and for a fixed sample of widths.
    expected = [c[2] if len(c) > 2 else None for c in cases]

    violations = []      # R not in Sp
    divergences = []     # R != Mo
    known_hits = {}
    dist = {}
    outcome_kinds = {}
    broken = []          # proof / build problems
    if not proof["ok"]:
        broken += proof["problems"]
    broken += extra_problems
    n_eval = 0
    prefilter = {"n": 0, "to_driver": 0}

    def answer(lines, expected=None):
        """the real crate's answers per build mode, and the driver's `model<TAB>spec` answers"""
        from concurrent.futures import ThreadPoolExecutor
        expected = expected or [None] * len(lines)
        if allbins:
            route = [mod.ROUTE(l) for l in lines]

            def one_mode(m):
                outs = [None] * len(lines)
                for b in allbins:
                    idx = [i for i, r in enumerate(route) if r == b]
                    if m not in allbins[b]:
                        res = ["skip"] * len(idx)          # e.g. no nightly build of the sweep bins
                    else:
                        res = run_chunked(allbins[b][m], [lines[i] for i in idx])
                    for i, o in zip(idx, res):
                        outs[i] = o
                return [o if o is not None else "bad-op" for o in outs]
            jobs = {m: one_mode for m in bins}
        else:
            jobs = {m: (lambda _m, _exe=exe: run_chunked(_exe, lines)) for m, exe in bins.items()}
        plain = [i for i in range(len(lines)) if expected[i] is None or (_wsweep.always_driver(lines[i]) and len(lines[i]) < 20000)]
        with ThreadPoolExecutor(max_workers=len(jobs) + 1) as ex:
            futs = {m: ex.submit(f, m) for m, f in jobs.items()}
            fd = ex.submit(run_chunked, driver, [lines[i] for i in plain])
            R = {m: f.result() for m, f in futs.items()}
            dres = fd.result()
        mo_sp = [None] * len(lines)
        for i, o in zip(plain, dres):
            mo_sp[i] = o
        rest = [i for i in range(len(lines)) if mo_sp[i] is None]
        differ = [i for i in rest if any(R[m][i] not in ("skip", expected[i]) for m in R)]
        for i, o in zip(differ, run_chunked(driver, [lines[i] for i in differ])):
            mo_sp[i] = o
        for i in rest:
            if mo_sp[i] is None:
                mo_sp[i] = "*\t" + expected[i]      # crate answer == exact Python value; model not evaluated here
        prefilter["n"] += len(rest)
        prefilter["to_driver"] += len(differ)
        return R, mo_sp

    if bins is None:
        broken.append(herr)
        R = {}
        mo_sp = run_chunked(driver, lines)
    else:
        R, mo_sp = answer(lines, expected)
    known = load_known()
    internal = []
    unmodelled = {}
    open_divergences = []
    for i, line in enumerate(lines):
        ms = mo_sp[i]
        if ms == "bad-op":
            unmodelled[line.split(" ")[0]] = unmodelled.get(line.split(" ")[0], 0) + 1
            continue
        if "\t" not in ms:
            internal.append(f"driver answered {ms!r} for {line!r}")
            continue
        mo, sp = ms.split("\t", 1)
        dist[tags[i].split("/")[0]] = dist.get(tags[i].split("/")[0], 0) + 1
        for mode, outs in R.items():
            r = outs[i]
            if r == "skip":
                continue
            n_eval += 1
            if r == "bad-op":
                internal.append(f"harness does not know {line!r}")
                continue
            kind = "P" if r == "P" else "N" if r in ("N",) else "ovf" if r.endswith(",true)") else "Err" if r.startswith("Err") else "ok"
            outcome_kinds[kind] = outcome_kinds.get(kind, 0) + 1
            if not sp_match(r, sp):
                hit = None
                for f in known:
                    if finding_matches(f, pid, line, r, sp, mode):
                        hit = f
                        break
                if hit:
                    known_hits.setdefault(hit["id"], {"f": hit, "n": 0, "example": line + " -> " + r + " (spec " + sp + ")"})["n"] += 1
                else:
                    violations.append({"line": line, "mode": mode, "crate": r, "spec": sp, "model": mo})
            if r != mo and mo != "*":
                if ("*" in sp or "|" in sp) and sp_match(r, sp):
                    # the property leaves this answer open (spec is a set) and the crate's answer is in the set:
                    # the model merely picked another member.  Not needed for the property -> WARNING only.
                    open_divergences.append({"line": line, "mode": mode, "crate": r, "model": mo, "spec": sp})
                else:
                    divergences.append({"line": line, "mode": mode, "crate": r, "model": mo, "spec": sp})
    ctx["bins"] = bins
    ctx["run_chunked"] = run_chunked
    if hasattr(mod, "post"):
        # property-specific cross checks (e.g. digit-type independence); returns extra violations
        violations += mod.post(ctx, lines, R, mo_sp) or []
    if internal:
        print("internal error of the check (not a finding about bnum):")
        for x in internal[:10]:
            print("  " + x)
        sys.exit(2)

    distinct = len(set(l for l in lines if nontrivial(l)))
    status = 0
    replay_path = None
    for k, v in known_hits.items():
        print(f"KNOWN-FINDING: property={pid} {k} {v['f']['what']} [{v['n']} cases, e.g. {v['example']}]")
    if violations:
        violations.sort(key=lambda v: len(v["line"]))
        minimised = []
        if bins is not None and not a.replay:
            seen_ops = set()
            for v in violations:
                op = v["line"].split(" ")[0]
                if op in seen_ops or len(seen_ops) >= 3 or "line" not in v:
                    continue
                seen_ops.add(op)
                try:
                    minimised.append(shrink(v, answer, known, pid))
                except Exception as e:      # the shrinker is a convenience; never let it change the verdict
                    minimised.append({"from": v["line"], "error": repr(e)[:200]})
        replay_path = os.path.join(REPLAYS, f"{pid}-{seed}.json")
        json.dump({"property": pid, "kind": "property violated on concrete input (crate answer not allowed by spec)",
                   "minimised": minimised,
                   "cases": violations[:25], "total": len(violations), "broken_obligations": broken[:5],
                   "replay": f"./check.py {pid} --replay {replay_path}"}, open(replay_path, "w"), indent=1)
        print(f"VIOLATION property={pid} replay={replay_path}")
        status = 1
    elif divergences or broken:
        # The property is no longer *shown* to hold.  Before saying so, search for an input on which it actually fails:
        # a second correspondence run with the thorough generators and another seed (development mode: its evidence goes
        # to evidence/dev/).  If that finds one, it becomes the replay.
        found = None
        if gtier == "quick" and not a.replay and bins is not None and os.environ.get("VERIF_NO_ESCALATE") != "1":
            rc2, out2, err2 = run([sys.executable, os.path.abspath(__file__), pid, "--tier", "quick", "--seed", str(seed + 1),
                                   "--skip-proof", "--force-escalate"], cwd=ROOT, timeout=7200)
            mm = re.search(r"^VIOLATION property=%s replay=(\S+)\s*$" % pid, out2, re.M)
            if mm:
                found = mm.group(1)
        if found:
            print(f"VIOLATION property={pid} replay={found}")
            replay_path = found
            status = 1
    if status == 0 and not violations and (divergences or broken):
        replay_path = os.path.join(REPLAYS, f"{pid}-{seed}.json")
        json.dump({"property": pid, "kind": "property no longer shown to hold: proof obligation or model/code correspondence broken; no input violating the specification was found",
                   "broken_obligations": broken[:10], "cases": divergences[:25], "total_divergences": len(divergences)},
                  open(replay_path, "w"), indent=1)
        print(f"VIOLATION property={pid} replay={replay_path} no-failing-input-found")
        status = 1

    samples = [{"request": lines[i], "crate": {m: R[m][i] for m in R}, "model_and_spec": mo_sp[i]} for i in
               sorted(set([0, len(lines) // 3, len(lines) // 2, len(lines) - 1])) if i < len(lines)]
    level = getattr(mod, "LEVEL", "proof")
    ev = {
        "property_id": pid, "tier": tier, "seed": seed, "level": level,
        "coverage": {
            "obligations": proof["obligations"], "discharged": proof["discharged"],
            "checker_cmd": f"cd lean && lake build Bnum.Props.{pid} Bnum.Audit.{pid}  (audit = #print axioms of every property theorem)" + (" && lake env leanchecker Bnum.Props.%s" % pid if tier == "thorough" else ""),
            "trusted_base": TRUSTED_BASE + getattr(mod, "TRUSTED", []),
            "theorems": proof["theorems"],
            "evaluations": n_eval, "distinct_nontrivial": distinct,
            "rule": "structured generator (gen/%s.py): value classes zero/one/all-ones/MIN/MAX/2^k±1/extreme digits/random, related pairs; a case is non-trivial unless every operand is 0 or 1; distinct = distinct request lines. Every request is answered by the real crate (dbg and rel builds), the Lean model and the Lean spec." % pid.lower(),
            "samples": samples,
            "value_class_distribution": dist, "outcome_kinds": outcome_kinds,
            "model_divergences": len(divergences), "spec_violations": len(violations),
            "divergences_where_property_leaves_answer_open": len(open_divergences),
            "width_sweep": {"requests_prefiltered_by_exact_python_value": prefilter["n"], "of_those_sent_to_the_lean_driver_because_the_crate_differed": prefilter["to_driver"],
                            "note": "all-widths sweep (every N = 1..1024 of the u8-digit types): requests whose crate answer equals the exact Python value are accepted without evaluating the Lean model; N <= 40 and every 64th N always go through the Lean driver"},
            "known_findings_hit": {k: v["n"] for k, v in known_hits.items()},
            "delegation_translator": dict(trans, note="gen/translate.py: Rust bodies of the delegation layer re-parsed from /repo/src and translated to Lean; `tied` = kernel-checked equations `model function = translated Rust body` (lean/Bnum/Generated/Deleg.lean); docs/translator.md"),
            "source_drift": {"relevant_to_this_property": drift["relevant"], "changed": drift["changed"][:40],
                             "escalated_to_thorough_generators": gtier != tier,
                             "note": "gen/srcmap.py: normalised-text hashes of every fn of /repo/src against srcmap/fingerprint.json, restricted to the functions this property's quick run executes (srcmap/deps.json, measured by coverage)"},
            "configs": sorted(set(l.split(" ")[1] for l in lines)),
            "ops_not_modelled": unmodelled,
            "exhaustive": False,
        },
        "assumptions": getattr(mod, "ASSUMPTIONS", []) + ["see DESIGN.md §6 (trusted base)"],
        "wall_s": round(time.time() - t0, 2),
        "violations": len(violations) + (1 if (status == 1 and not violations) else 0),
    }
    if proof.get("extra_laws"):
        ev["coverage"]["extra_laws"] = proof["extra_laws"]
    if hasattr(mod, "evidence_extra"):
        ev["coverage"].update(mod.evidence_extra(ctx) or {})
    # development runs (--skip-proof: mutation trials etc.) must not overwrite the registered evidence
    evpath = os.path.join(EVID, "dev", pid + ".json") if (a.skip_proof or a.replay) else os.path.join(EVID, pid + ".json")
    os.makedirs(os.path.dirname(evpath), exist_ok=True)
    json.dump(ev, open(evpath, "w"), indent=1)
    if open_divergences:
        e = open_divergences[0]
        print(f"WARNING: crate and model differ on {len(open_divergences)} requests whose answer the property leaves open (crate answer allowed by the spec), e.g. {e['line'][:120]} -> crate {e['crate'][:40]} model {e['model'][:40]} spec {e['spec'][:40]}")
    if unmodelled:
        print("WARNING: operations sent by the generator but unknown to the Lean driver (skipped): " + ", ".join(f"{k}x{v}" for k, v in sorted(unmodelled.items())))
    if status == 0:
        print(f"OK property={pid} tier={tier} theorems={proof['discharged']}/{proof['obligations']} cases={len(lines)} evaluations={n_eval} wall={ev['wall_s']}s")
    sys.exit(status)


if __name__ == "__main__":
    sys.path.insert(0, ROOT)
    main()
