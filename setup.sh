#!/bin/sh
# Build the framework from files on disk only (offline). Failures here are reported by the
# individual checks (which rebuild what they need), so keep going.
cd "$(dirname "$0")"
export CARGO_NET_OFFLINE=true
(cd lean && lake build bnum_driver 2>&1 | tail -2)
# one invocation for all property and audit modules: Lake builds independent modules in parallel
MODS=$(cd lean/Bnum && ls Props/*.lean Audit/*.lean Generated/*.lean | sed 's/\.lean$//; s#/#.#; s/^/Bnum./' | tr '\n' ' ')
(cd lean && lake build $MODS 2>&1 | tail -3)
# every bin except the all-widths ones (1024 instantiations each): those use the unoptimised profiles below
BINS=$(cd harness/src/bin && ls *.rs | sed 's/\.rs$//' | grep -v '^widths' | grep -v 'w$' | sed 's/^/--bin /' | tr '\n' ' ')
(cd harness && cargo build --offline $BINS 2>&1 | tail -2; cargo build --offline $BINS --profile rel 2>&1 | tail -2)
# all-widths sweep bins used by the quick tier (tools/gen_widths.py): opt-level 0, under a minute each
(cd harness && cargo build --offline --bin widths --bin widths2 --bin widths3 --profile w0 2>&1 | tail -1; cargo build --offline --bin widths --bin widths2 --bin widths3 --profile w0rel 2>&1 | tail -1)
(cd harness && cargo +nightly build --offline --bin c15 --features nightly --target-dir target/nightly 2>&1 | tail -1)
exit 0
