#!/bin/sh
# Build the framework from files on disk only (offline).
set -e
cd "$(dirname "$0")"
(cd lean && lake build Bnum bnum_driver 2>&1 | tail -3)
if [ -d harness ]; then (cd harness && CARGO_NET_OFFLINE=true RUSTFLAGS="--cfg bnum_verif" cargo build --offline --bins 2>&1 | tail -3); fi
