#!/bin/sh
# Build the framework from files on disk only (offline). Failures here are reported by the
# individual checks (which rebuild what they need), so keep going.
cd "$(dirname "$0")"
export CARGO_NET_OFFLINE=true
(cd lean && lake build bnum_driver 2>&1 | tail -2)
for f in lean/Bnum/Props/*.lean; do
  m=$(basename "$f" .lean)
  (cd lean && lake build "Bnum.Props.$m" 2>&1 | tail -1)
done
# every bin except `widths` (1024 instantiations, ~3.5 min per profile: built on demand by the thorough tier)
BINS=$(cd harness/src/bin && ls *.rs | sed 's/\.rs$//' | grep -v '^widths$' | sed 's/^/--bin /' | tr '\n' ' ')
(cd harness && cargo build --offline $BINS 2>&1 | tail -2; cargo build --offline $BINS --profile rel 2>&1 | tail -2)
(cd harness && cargo +nightly build --offline --bin c15 --features nightly --target-dir target/nightly 2>&1 | tail -1)
exit 0
