//! Harness helpers: line protocol (see /verif/CONVENTIONS.md), conversion between hex patterns and
//! bnum integers through `from_digits`/`digits()` only (no parsing code of the crate under test is
//! used to build operands), configuration dispatch, panic capture.
use std::io::{BufRead, Write};
use std::panic::{catch_unwind, AssertUnwindSafe};

pub use bnum;

/// hex (no prefix) -> little-endian bytes, padded/truncated to `len`
pub fn hex_to_le_bytes(s: &str, len: usize) -> Vec<u8> {
    let s = s.trim_start_matches("0x");
    let mut nibbles: Vec<u8> = s
        .bytes()
        .rev()
        .map(|c| (c as char).to_digit(16).expect("hex digit") as u8)
        .collect();
    if nibbles.len() % 2 == 1 {
        nibbles.push(0);
    }
    let mut out: Vec<u8> = nibbles.chunks(2).map(|p| p[0] | (p[1] << 4)).collect();
    out.resize(len, 0);
    out
}

pub fn le_bytes_to_hex(b: &[u8]) -> String {
    let mut s = String::new();
    let mut started = false;
    for &x in b.iter().rev() {
        if started {
            s.push_str(&format!("{:02x}", x));
        } else if x != 0 {
            s.push_str(&format!("{:x}", x));
            started = true;
        }
    }
    if !started {
        s.push('0');
    }
    s
}

/// hex-encoded byte string (`-` = empty)
pub fn parse_bytes(s: &str) -> Vec<u8> {
    if s == "-" {
        return vec![];
    }
    let b = s.as_bytes();
    assert!(b.len() % 2 == 0);
    b.chunks(2)
        .map(|p| {
            (((p[0] as char).to_digit(16).unwrap() << 4) | (p[1] as char).to_digit(16).unwrap()) as u8
        })
        .collect()
}
pub fn show_bytes(b: &[u8]) -> String {
    if b.is_empty() {
        return "-".into();
    }
    b.iter().map(|x| format!("{:02x}", x)).collect()
}

/// Conversion between W-bit patterns and integer types.
pub trait Pat: Sized {
    const BYTES: usize;
    fn pat_from_le(b: &[u8]) -> Self;
    fn pat_to_le(&self) -> Vec<u8>;
    fn from_hex(s: &str) -> Self {
        Self::pat_from_le(&hex_to_le_bytes(s, Self::BYTES))
    }
    fn to_hex(&self) -> String {
        le_bytes_to_hex(&self.pat_to_le())
    }
}

macro_rules! pat_prim {
    ($($t:ty),*) => {$(
        impl Pat for $t {
            const BYTES: usize = core::mem::size_of::<$t>();
            fn pat_from_le(b: &[u8]) -> Self { let mut a = [0u8; core::mem::size_of::<$t>()]; a.copy_from_slice(&b[..Self::BYTES]); <$t>::from_le_bytes(a) }
            fn pat_to_le(&self) -> Vec<u8> { self.to_le_bytes().to_vec() }
        }
    )*};
}
pat_prim!(u8, u16, u32, u64, u128, usize, i8, i16, i32, i64, i128, isize);

macro_rules! pat_bnum {
    ($U:ident, $I:ident, $D:ty) => {
        impl<const N: usize> Pat for bnum::$U<N> {
            const BYTES: usize = N * core::mem::size_of::<$D>();
            fn pat_from_le(b: &[u8]) -> Self {
                const DB: usize = core::mem::size_of::<$D>();
                let mut d = [0 as $D; N];
                for i in 0..N {
                    let mut a = [0u8; DB];
                    a.copy_from_slice(&b[i * DB..(i + 1) * DB]);
                    d[i] = <$D>::from_le_bytes(a);
                }
                Self::from_digits(d)
            }
            fn pat_to_le(&self) -> Vec<u8> {
                self.digits().iter().flat_map(|d| d.to_le_bytes()).collect()
            }
        }
        impl<const N: usize> Pat for bnum::$I<N> {
            const BYTES: usize = N * core::mem::size_of::<$D>();
            fn pat_from_le(b: &[u8]) -> Self {
                Self::from_bits(<bnum::$U<N> as Pat>::pat_from_le(b))
            }
            fn pat_to_le(&self) -> Vec<u8> {
                Pat::pat_to_le(&self.to_bits())
            }
        }
    };
}
pat_bnum!(BUint, BInt, u64);
pat_bnum!(BUintD32, BIntD32, u32);
pat_bnum!(BUintD16, BIntD16, u16);
pat_bnum!(BUintD8, BIntD8, u8);

/// Canonical answer text.
pub trait Out {
    fn out(&self) -> String;
}
impl Out for bool {
    fn out(&self) -> String { if *self { "true".into() } else { "false".into() } }
}
impl Out for String {
    fn out(&self) -> String { self.clone() }
}
impl Out for () {
    fn out(&self) -> String { "()".into() }
}
impl Out for core::cmp::Ordering {
    fn out(&self) -> String { format!("{:?}", self) }
}
/// decimal number (u32 counts, exponents, …)
pub struct Dec<T>(pub T);
impl<T: core::fmt::Display> Out for Dec<T> {
    fn out(&self) -> String { format!("{}", self.0) }
}
/// primitive integer printed as its pattern
pub struct Hx<T>(pub T);
impl<T: Pat> Out for Hx<T> {
    fn out(&self) -> String { self.0.to_hex() }
}
macro_rules! out_bnum {
    ($($T:ident),*) => {$(
        impl<const N: usize> Out for bnum::$T<N> { fn out(&self) -> String { self.to_hex() } }
    )*};
}
out_bnum!(BUint, BInt, BUintD32, BIntD32, BUintD16, BIntD16, BUintD8, BIntD8);
impl<T: Out> Out for Option<T> {
    fn out(&self) -> String {
        match self { Some(x) => format!("S({})", x.out()), None => "N".into() }
    }
}
impl<A: Out, B: Out> Out for (A, B) {
    fn out(&self) -> String { format!("({},{})", self.0.out(), self.1.out()) }
}
impl<T: Out> Out for Vec<T> {
    fn out(&self) -> String {
        if self.is_empty() { "[]".into() } else { format!("[{}]", self.iter().map(|x| x.out()).collect::<Vec<_>>().join(",")) }
    }
}

pub fn parse_bool(s: &str) -> bool {
    match s { "1" | "true" => true, "0" | "false" => false, _ => panic!("bad bool") }
}
pub fn parse_u32(s: &str) -> u32 { s.parse().expect("u32") }
pub fn parse_dbg(s: &str) -> bool { match s { "dbg" => true, "rel" => false, _ => panic!("bad mode") } }
/// `true` when a request tagged `dbg`/`rel` is meant for this build; the other build answers `skip`.
pub fn mode_ok(s: &str) -> bool { parse_dbg(s) == IS_DBG }

/// `ops!(op; recv(0) ; arg-getters ; names…)`: `"name" => recv.name(args…)`
#[macro_export]
macro_rules! un_ops {
    ($op:expr, $x:ident, $($name:ident),* $(,)?) => {
        match $op { $( stringify!($name) => return Some($x(0).$name().out()), )* _ => {} }
    };
}
#[macro_export]
macro_rules! bin_ops {
    ($op:expr, $x:ident, $y:ident, $($name:ident),* $(,)?) => {
        match $op { $( stringify!($name) => return Some($x(0).$name($y(1)).out()), )* _ => {} }
    };
}
/// like `un_ops!` / `bin_ops!` for requests `op cfg dbg|rel a [b]` (mode-dependent bodies)
#[macro_export]
macro_rules! un_ops_mode {
    ($op:expr, $a:ident, $x:ident, $($name:ident),* $(,)?) => {
        match $op { $( stringify!($name) => { if !mode_ok($a[0]) { return Some("skip".into()); } return Some($x(1).$name().out()) }, )* _ => {} }
    };
}
#[macro_export]
macro_rules! bin_ops_mode {
    ($op:expr, $a:ident, $x:ident, $y:ident, $($name:ident),* $(,)?) => {
        match $op { $( stringify!($name) => { if !mode_ok($a[0]) { return Some("skip".into()); } return Some($x(1).$name($y(2)).out()) }, )* _ => {} }
    };
}

/// Which build this binary is (debug assertions on?)
pub const IS_DBG: bool = cfg!(debug_assertions);

/// Read request lines on stdin, answer each with `f(op, cfg, args)`; a panic answers `P`;
/// an unknown op answers `bad-op`.
pub fn serve(f: impl Fn(&str, &str, &[&str]) -> Option<String>) {
    std::panic::set_hook(Box::new(|_| {}));
    let stdin = std::io::stdin();
    let stdout = std::io::stdout();
    let mut out = std::io::BufWriter::new(stdout.lock());
    for line in stdin.lock().lines() {
        let line = line.unwrap();
        let toks: Vec<&str> = line.split(' ').filter(|t| !t.is_empty()).collect();
        if toks.len() < 2 {
            writeln!(out, "bad-line").unwrap();
            continue;
        }
        let r = catch_unwind(AssertUnwindSafe(|| f(toks[0], toks[1], &toks[2..])));
        match r {
            Ok(Some(s)) => writeln!(out, "{}", s).unwrap(),
            Ok(None) => writeln!(out, "bad-op").unwrap(),
            Err(_) => writeln!(out, "P").unwrap(),
        }
        // flush per answer: when a request never returns (a non-terminating loop in the crate), check.py's timeout
        // finds the request by counting the answers received so far
        out.flush().unwrap();
    }
    out.flush().unwrap();
}

/// Expand `$m!(U, I, Digit, N)` for the configuration named by `$cfg` (`"8x3"`, without the
/// signedness letter). The list is the union of the quick and thorough configurations.
#[macro_export]
macro_rules! for_config {
    ($cfg:expr, $m:ident) => {
        match $cfg {
            "8x1" => $m!(BUintD8, BIntD8, u8, 1),
            "8x2" => $m!(BUintD8, BIntD8, u8, 2),
            "8x3" => $m!(BUintD8, BIntD8, u8, 3),
            "8x4" => $m!(BUintD8, BIntD8, u8, 4),
            "8x5" => $m!(BUintD8, BIntD8, u8, 5),
            "8x8" => $m!(BUintD8, BIntD8, u8, 8),
            "8x16" => $m!(BUintD8, BIntD8, u8, 16),
            "8x17" => $m!(BUintD8, BIntD8, u8, 17),
            "8x40" => $m!(BUintD8, BIntD8, u8, 40),
            "16x1" => $m!(BUintD16, BIntD16, u16, 1),
            "16x2" => $m!(BUintD16, BIntD16, u16, 2),
            "16x3" => $m!(BUintD16, BIntD16, u16, 3),
            "16x4" => $m!(BUintD16, BIntD16, u16, 4),
            "16x5" => $m!(BUintD16, BIntD16, u16, 5),
            "16x20" => $m!(BUintD16, BIntD16, u16, 20),
            "32x1" => $m!(BUintD32, BIntD32, u32, 1),
            "32x2" => $m!(BUintD32, BIntD32, u32, 2),
            "32x3" => $m!(BUintD32, BIntD32, u32, 3),
            "32x4" => $m!(BUintD32, BIntD32, u32, 4),
            "32x6" => $m!(BUintD32, BIntD32, u32, 6),
            "32x10" => $m!(BUintD32, BIntD32, u32, 10),
            "64x1" => $m!(BUint, BInt, u64, 1),
            "64x2" => $m!(BUint, BInt, u64, 2),
            "64x3" => $m!(BUint, BInt, u64, 3),
            "64x4" => $m!(BUint, BInt, u64, 4),
            "64x5" => $m!(BUint, BInt, u64, 5),
            "64x8" => $m!(BUint, BInt, u64, 8),
            "64x16" => $m!(BUint, BInt, u64, 16),
            "64x128" => $m!(BUint, BInt, u64, 128),
            "8x1024" => $m!(BUintD8, BIntD8, u8, 1024),
            "16x512" => $m!(BUintD16, BIntD16, u16, 512),
            "32x256" => $m!(BUintD32, BIntD32, u32, 256),
            "8x6" => $m!(BUintD8, BIntD8, u8, 6),
            "16x8" => $m!(BUintD16, BIntD16, u16, 8),
            "8x7" => $m!(BUintD8, BIntD8, u8, 7),
            "8x9" => $m!(BUintD8, BIntD8, u8, 9),
            "8x12" => $m!(BUintD8, BIntD8, u8, 12),
            "8x24" => $m!(BUintD8, BIntD8, u8, 24),
            "8x64" => $m!(BUintD8, BIntD8, u8, 64),
            "16x9" => $m!(BUintD16, BIntD16, u16, 9),
            "16x12" => $m!(BUintD16, BIntD16, u16, 12),
            "32x12" => $m!(BUintD32, BIntD32, u32, 12),
            "64x9" => $m!(BUint, BInt, u64, 9),
            "64x12" => $m!(BUint, BInt, u64, 12),
            "64x64" => $m!(BUint, BInt, u64, 64),
            _ => None,
        }
    };
}

/// split `u8x3` into (signed, "8x3")
pub fn split_cfg(cfg: &str) -> (bool, &str) {
    let signed = match cfg.as_bytes()[0] { b'u' => false, b'i' => true, _ => panic!("bad cfg") };
    (signed, &cfg[1..])
}

/// Expand `$m!(kind sign (Type) extra…)` for the integer type named `$name`: bnum configurations of
/// the cast grid (`u8x3`, `i64x2`, …; kind `bn`) and the twelve primitive integers (kind `pr`).
#[macro_export]
macro_rules! for_type {
    ($name:expr, $m:ident ! ( $($extra:tt)* )) => {
        match $name {
            "u8x1" => $m!(bn u ($crate::bnum::BUintD8<1>) $($extra)*),
            "i8x1" => $m!(bn i ($crate::bnum::BIntD8<1>) $($extra)*),
            "u8x2" => $m!(bn u ($crate::bnum::BUintD8<2>) $($extra)*),
            "i8x2" => $m!(bn i ($crate::bnum::BIntD8<2>) $($extra)*),
            "u8x3" => $m!(bn u ($crate::bnum::BUintD8<3>) $($extra)*),
            "i8x3" => $m!(bn i ($crate::bnum::BIntD8<3>) $($extra)*),
            "u8x5" => $m!(bn u ($crate::bnum::BUintD8<5>) $($extra)*),
            "i8x5" => $m!(bn i ($crate::bnum::BIntD8<5>) $($extra)*),
            "u8x8" => $m!(bn u ($crate::bnum::BUintD8<8>) $($extra)*),
            "i8x8" => $m!(bn i ($crate::bnum::BIntD8<8>) $($extra)*),
            "u8x16" => $m!(bn u ($crate::bnum::BUintD8<16>) $($extra)*),
            "i8x16" => $m!(bn i ($crate::bnum::BIntD8<16>) $($extra)*),
            "u8x17" => $m!(bn u ($crate::bnum::BUintD8<17>) $($extra)*),
            "i8x17" => $m!(bn i ($crate::bnum::BIntD8<17>) $($extra)*),
            "u16x1" => $m!(bn u ($crate::bnum::BUintD16<1>) $($extra)*),
            "i16x1" => $m!(bn i ($crate::bnum::BIntD16<1>) $($extra)*),
            "u16x2" => $m!(bn u ($crate::bnum::BUintD16<2>) $($extra)*),
            "i16x2" => $m!(bn i ($crate::bnum::BIntD16<2>) $($extra)*),
            "u16x3" => $m!(bn u ($crate::bnum::BUintD16<3>) $($extra)*),
            "i16x3" => $m!(bn i ($crate::bnum::BIntD16<3>) $($extra)*),
            "u16x4" => $m!(bn u ($crate::bnum::BUintD16<4>) $($extra)*),
            "i16x4" => $m!(bn i ($crate::bnum::BIntD16<4>) $($extra)*),
            "u16x5" => $m!(bn u ($crate::bnum::BUintD16<5>) $($extra)*),
            "i16x5" => $m!(bn i ($crate::bnum::BIntD16<5>) $($extra)*),
            "u32x1" => $m!(bn u ($crate::bnum::BUintD32<1>) $($extra)*),
            "i32x1" => $m!(bn i ($crate::bnum::BIntD32<1>) $($extra)*),
            "u32x2" => $m!(bn u ($crate::bnum::BUintD32<2>) $($extra)*),
            "i32x2" => $m!(bn i ($crate::bnum::BIntD32<2>) $($extra)*),
            "u32x3" => $m!(bn u ($crate::bnum::BUintD32<3>) $($extra)*),
            "i32x3" => $m!(bn i ($crate::bnum::BIntD32<3>) $($extra)*),
            "u32x4" => $m!(bn u ($crate::bnum::BUintD32<4>) $($extra)*),
            "i32x4" => $m!(bn i ($crate::bnum::BIntD32<4>) $($extra)*),
            "u32x6" => $m!(bn u ($crate::bnum::BUintD32<6>) $($extra)*),
            "i32x6" => $m!(bn i ($crate::bnum::BIntD32<6>) $($extra)*),
            "u64x1" => $m!(bn u ($crate::bnum::BUint<1>) $($extra)*),
            "i64x1" => $m!(bn i ($crate::bnum::BInt<1>) $($extra)*),
            "u64x2" => $m!(bn u ($crate::bnum::BUint<2>) $($extra)*),
            "i64x2" => $m!(bn i ($crate::bnum::BInt<2>) $($extra)*),
            "u64x3" => $m!(bn u ($crate::bnum::BUint<3>) $($extra)*),
            "i64x3" => $m!(bn i ($crate::bnum::BInt<3>) $($extra)*),
            "u8" => $m!(pr u (u8) $($extra)*),
            "u16" => $m!(pr u (u16) $($extra)*),
            "u32" => $m!(pr u (u32) $($extra)*),
            "u64" => $m!(pr u (u64) $($extra)*),
            "u128" => $m!(pr u (u128) $($extra)*),
            "usize" => $m!(pr u (usize) $($extra)*),
            "i8" => $m!(pr i (i8) $($extra)*),
            "i16" => $m!(pr i (i16) $($extra)*),
            "i32" => $m!(pr i (i32) $($extra)*),
            "i64" => $m!(pr i (i64) $($extra)*),
            "i128" => $m!(pr i (i128) $($extra)*),
            "isize" => $m!(pr i (isize) $($extra)*),
            _ => None,
        }
    };
}
pub mod fmtgen;
