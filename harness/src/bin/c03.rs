//! C03: division and remainder.
use bnum_verif_harness::*;

macro_rules! imp {
    ($U:ident, $I:ident, $D:ty, $N:literal) => {{
        type UT = bnum::$U<$N>;
        type IT = bnum::$I<$N>;
        fn run(signed: bool, op: &str, a: &[&str]) -> Option<String> {
            let u = |i: usize| UT::from_hex(a[i]);
            let s = |i: usize| IT::from_hex(a[i]);
            if !signed {
                bin_ops!(op, u, u, checked_div, checked_rem, checked_div_euclid, checked_rem_euclid,
                    overflowing_div, overflowing_rem, overflowing_div_euclid, overflowing_rem_euclid,
                    wrapping_div, wrapping_rem, wrapping_div_euclid, wrapping_rem_euclid, saturating_div,
                    div, rem, div_euclid, rem_euclid, strict_div, strict_rem, strict_div_euclid, strict_rem_euclid,
                    checked_next_multiple_of);
                bin_ops_mode!(op, a, u, u, div_floor, div_ceil, next_multiple_of);
            } else {
                bin_ops!(op, s, s, checked_div, checked_rem, checked_div_euclid, checked_rem_euclid,
                    overflowing_div, overflowing_rem, overflowing_div_euclid, overflowing_rem_euclid,
                    wrapping_div, wrapping_rem, wrapping_div_euclid, wrapping_rem_euclid, saturating_div,
                    div, rem, div_euclid, rem_euclid, strict_div, strict_rem, strict_div_euclid, strict_rem_euclid,
                    checked_next_multiple_of);
                bin_ops_mode!(op, a, s, s, div_floor, div_ceil, next_multiple_of);
            }
            None
        }
        Some(run as fn(bool, &str, &[&str]) -> Option<String>)
    }};
}

fn main() {
    serve(|op, cfg, args| {
        let (signed, c) = split_cfg(cfg);
        let f: Option<fn(bool, &str, &[&str]) -> Option<String>> = for_config!(c, imp);
        f.and_then(|f| f(signed, op, args))
    });
}
