//! C20: random generation with a scripted RngCore (byte stream given in the request).
use bnum_verif_harness::*;
use rand::distributions::uniform::{SampleUniform, UniformSampler};
use rand::distributions::{Distribution, Standard, Uniform};
use rand::{Rng, RngCore};

struct Script { data: Vec<u8>, pos: usize }
struct Exhausted;
impl RngCore for Script {
    fn next_u32(&mut self) -> u32 { let mut b = [0u8; 4]; self.fill_bytes(&mut b); u32::from_le_bytes(b) }
    fn next_u64(&mut self) -> u64 { let mut b = [0u8; 8]; self.fill_bytes(&mut b); u64::from_le_bytes(b) }
    fn fill_bytes(&mut self, dest: &mut [u8]) {
        if self.pos + dest.len() > self.data.len() { std::panic::panic_any(Exhausted); }
        dest.copy_from_slice(&self.data[self.pos..self.pos + dest.len()]);
        self.pos += dest.len();
    }
    fn try_fill_bytes(&mut self, dest: &mut [u8]) -> Result<(), rand::Error> { self.fill_bytes(dest); Ok(()) }
}

fn with_rng<T: Out>(bytes: &str, f: impl FnOnce(&mut Script) -> T) -> String {
    let mut rng = Script { data: parse_bytes(bytes), pos: 0 };
    let r = std::panic::catch_unwind(std::panic::AssertUnwindSafe(|| f(&mut rng)));
    match r {
        Ok(x) => { let o = x.out(); if o.starts_with('[') { format!("{}@{}", o, rng.pos) } else { format!("S({})@{}", o, rng.pos) } }
        Err(e) => if e.is::<Exhausted>() { "exhausted".into() } else { "P".into() },
    }
}

macro_rules! ops {
    ($T:ty, $op:expr, $a:expr) => {{
        let a: &[&str] = $a;
        let v = |i: usize| <$T>::from_hex(a[i]);
        match $op {
            "sample_single" => Some(with_rng(a[2], |r| <<$T as SampleUniform>::Sampler as UniformSampler>::sample_single(v(0), v(1), r))),
            "sample_single_inclusive" => Some(with_rng(a[2], |r| <<$T as SampleUniform>::Sampler as UniformSampler>::sample_single_inclusive(v(0), v(1), r))),
            "uniform_new" => Some(with_rng(a[2], |r| Uniform::new(v(0), v(1)).sample(r))),
            "uniform_new_inclusive" => Some(with_rng(a[2], |r| Uniform::new_inclusive(v(0), v(1)).sample(r))),
            "gen_range" => Some(with_rng(a[2], |r| r.gen_range(v(0)..v(1)))),
            "gen_range_inclusive" => Some(with_rng(a[2], |r| r.gen_range(v(0)..=v(1)))),
            "standard" => Some(with_rng(a[0], |r| { let x: $T = Standard.sample(r); x })),
            "fill" => Some(with_rng(a[1], |r| { let mut s = vec![<$T>::from_hex("0"); a[0].parse().unwrap()]; bnum::random::try_fill_slice(&mut s, r).unwrap(); s })),
            "fill_each" => Some(with_rng(a[1], |r| { let k: usize = a[0].parse().unwrap(); (0..k).map(|_| r.gen::<$T>()).collect::<Vec<$T>>() })),
            _ => None,
        }
    }};
}

macro_rules! imp {
    ($U:ident, $I:ident, $D:ty, $N:literal) => {{
        fn run(signed: bool, op: &str, a: &[&str]) -> Option<String> {
            if signed { ops!(bnum::$I<$N>, op, a) } else { ops!(bnum::$U<$N>, op, a) }
        }
        Some(run as fn(bool, &str, &[&str]) -> Option<String>)
    }};
}

fn main() {
    serve(|op, cfg, args| {
        let (signed, c) = split_cfg(cfg);
        let f: Option<fn(bool, &str, &[&str]) -> Option<String>> = for_config!(c, imp);
        f.and_then(|f| f(signed, op, args))
    });
}
