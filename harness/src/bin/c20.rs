//! C20: random generation with a scripted RngCore (byte stream given in the request).
//!
//! The scripted RNG has two exhaustion behaviours: the default one panics with `Exhausted` from every
//! `RngCore` method; ops with the suffix `_err` run the same request with a script whose
//! `try_fill_bytes` returns `Err` instead (the path taken by `Fill for Slice`'s `?` and by
//! `Rng::fill`'s "Rng::fill failed" panic).  Both are reported as `exhausted`.
use bnum_verif_harness::*;
use rand::distributions::uniform::{SampleUniform, UniformSampler};
use rand::distributions::{Distribution, Standard, Uniform};
use rand::{Fill, Rng, RngCore};

struct Script { data: Vec<u8>, pos: usize, err_mode: bool, failed: bool }
struct Exhausted;
impl RngCore for Script {
    fn next_u32(&mut self) -> u32 { let mut b = [0u8; 4]; self.fill_bytes(&mut b); u32::from_le_bytes(b) }
    fn next_u64(&mut self) -> u64 { let mut b = [0u8; 8]; self.fill_bytes(&mut b); u64::from_le_bytes(b) }
    fn fill_bytes(&mut self, dest: &mut [u8]) {
        if self.pos + dest.len() > self.data.len() { self.failed = true; std::panic::panic_any(Exhausted); }
        dest.copy_from_slice(&self.data[self.pos..self.pos + dest.len()]);
        self.pos += dest.len();
    }
    fn try_fill_bytes(&mut self, dest: &mut [u8]) -> Result<(), rand::Error> {
        if self.err_mode && self.pos + dest.len() > self.data.len() {
            self.failed = true;
            return Err(rand::Error::from(core::num::NonZeroU32::new(rand::Error::CUSTOM_START).unwrap()));
        }
        self.fill_bytes(dest);
        Ok(())
    }
}

/// answer of a sampling closure: `S(x)@pos` / `[..]@pos`; `None` from the closure = an `Err` of the RNG
fn with_rng<T: Out>(bytes: &str, err_mode: bool, f: impl FnOnce(&mut Script) -> Option<T>) -> String {
    let mut rng = Script { data: parse_bytes(bytes), pos: 0, err_mode, failed: false };
    let r = std::panic::catch_unwind(std::panic::AssertUnwindSafe(|| f(&mut rng)));
    match r {
        Ok(Some(x)) => { let o = x.out(); if o.starts_with('[') { format!("{}@{}", o, rng.pos) } else { format!("S({})@{}", o, rng.pos) } }
        Ok(None) => if rng.failed { "exhausted".into() } else { "Err-without-exhaustion".into() },
        Err(e) => if e.is::<Exhausted>() || rng.failed { "exhausted".into() } else { "P".into() },
    }
}

/// view `&mut [T]` as `&mut bnum::random::Slice<T>` (the wrapper `rand::Fill` is implemented for)
fn as_slice_wrapper<T>(s: &mut [T]) -> &mut bnum::random::Slice<T> {
    unsafe { &mut *(s as *mut [T] as *mut bnum::random::Slice<T>) }
}

/// Complete enumeration of the RNG words of a narrow type (BITS <= 16): for every word `v` the stream
/// is `v` followed by the all-zero word (which every range accepts), so no draw exhausts the stream;
/// a draw that consumes one word accepted `v`.  `pats[i]` = pattern of the value returned for word i,
/// `acc[i]` = accepted at the first word.  Digest: see `enum_digest`.
fn enum_digest(bits: usize, res: &[(u64, bool)]) -> String {
    let m = 1u64 << bits;
    let mut cnt = vec![0u64; m as usize];
    let (mut rej, mut h) = (0u64, 0u64);
    for (v, &(x, acc)) in res.iter().enumerate() {
        if acc { cnt[x as usize] += 1; } else { rej += 1; }
        let code = if acc { x } else { m + x };
        h += (v as u64 + 1) * (code + 1);
    }
    let vals = cnt.iter().filter(|&&c| c > 0).count();
    let mn = cnt.iter().filter(|&&c| c > 0).min().copied().unwrap_or(0);
    let mx = cnt.iter().max().copied().unwrap_or(0);
    format!("rej={};vals={};min={};max={};h={}", rej, vals, mn, mx, h)
}

macro_rules! ops {
    ($T:ty, $op:expr, $a:expr) => {{
        let a: &[&str] = $a;
        let v = |i: usize| <$T>::from_hex(a[i]);
        let (op, em) = match $op.strip_suffix("_err") { Some(o) => (o, true), None => ($op, false) };
        const BY: usize = <$T as Pat>::BYTES;
        match op {
            "sample_single" => Some(with_rng(a[2], em, |r| Some(<<$T as SampleUniform>::Sampler as UniformSampler>::sample_single(v(0), v(1), r)))),
            "sample_single_inclusive" => Some(with_rng(a[2], em, |r| Some(<<$T as SampleUniform>::Sampler as UniformSampler>::sample_single_inclusive(v(0), v(1), r)))),
            "uniform_new" => Some(with_rng(a[2], em, |r| Some(Uniform::new(v(0), v(1)).sample(r)))),
            "uniform_new_inclusive" => Some(with_rng(a[2], em, |r| Some(Uniform::new_inclusive(v(0), v(1)).sample(r)))),
            // `UniformSampler::new(_inclusive)` + `UniformSampler::sample` called directly, and `Uniform::from(range)`
            "sampler_new" => Some(with_rng(a[2], em, |r| Some(<<$T as SampleUniform>::Sampler as UniformSampler>::new(v(0), v(1)).sample(r)))),
            "sampler_new_inclusive" => Some(with_rng(a[2], em, |r| Some(<<$T as SampleUniform>::Sampler as UniformSampler>::new_inclusive(v(0), v(1)).sample(r)))),
            "uniform_from" => Some(with_rng(a[2], em, |r| Some(r.sample(Uniform::from(v(0)..v(1)))))),
            "uniform_from_inclusive" => Some(with_rng(a[2], em, |r| Some(r.sample(Uniform::from(v(0)..=v(1)))))),
            "gen_range" => Some(with_rng(a[2], em, |r| Some(r.gen_range(v(0)..v(1))))),
            "gen_range_inclusive" => Some(with_rng(a[2], em, |r| Some(r.gen_range(v(0)..=v(1))))),
            // one stored sampler, k draws:  uniform_many cfg incl low high k bytes
            "uniform_many" => Some(with_rng(a[4], em, |r| {
                let u = if parse_bool(a[0]) { Uniform::new_inclusive(v(1), v(2)) } else { Uniform::new(v(1), v(2)) };
                let k: usize = a[3].parse().unwrap();
                Some((0..k).map(|_| u.sample(r)).collect::<Vec<$T>>())
            })),
            "standard" => Some(with_rng(a[0], em, |r| { let x: $T = Standard.sample(r); Some(x) })),
            "fill" => Some(with_rng(a[1], em, |r| { let mut s = vec![<$T>::from_hex("0"); a[0].parse().unwrap()]; bnum::random::try_fill_slice(&mut s, r).ok().map(|_| s) })),
            // the `rand::Fill` impl reached through the trait and through `Rng::fill` / `Rng::try_fill`
            "fill_trait" => Some(with_rng(a[1], em, |r| { let mut s = vec![<$T>::from_hex("0"); a[0].parse().unwrap()]; Fill::try_fill(as_slice_wrapper(&mut s[..]), r).ok().map(|_| s) })),
            "rng_fill" => Some(with_rng(a[1], em, |r| { let mut s = vec![<$T>::from_hex("0"); a[0].parse().unwrap()]; r.fill(as_slice_wrapper(&mut s[..])); Some(s) })),
            "rng_try_fill" => Some(with_rng(a[1], em, |r| { let mut s = vec![<$T>::from_hex("0"); a[0].parse().unwrap()]; r.try_fill(as_slice_wrapper(&mut s[..])).ok().map(|_| s) })),
            "fill_each" => Some(with_rng(a[1], em, |r| { let k: usize = a[0].parse().unwrap(); Some((0..k).map(|_| r.gen::<$T>()).collect::<Vec<$T>>()) })),
            // enum_words cfg which low high   (which = ssi | ss | gri | gr | uni | un; BITS <= 16)
            "enum_words" => {
                if BY > 2 { return Some("bad-width".into()); }
                let bits = BY * 8;
                let r = std::panic::catch_unwind(std::panic::AssertUnwindSafe(|| {
                    let (lo, hi) = (v(1), v(2));
                    let sampler = match a[0] { "uni" => Some(Uniform::new_inclusive(lo, hi)), "un" => Some(Uniform::new(lo, hi)), _ => None };
                    let mut res = Vec::with_capacity(1 << bits);
                    for w in 0..(1u32 << bits) {
                        let mut data = w.to_le_bytes()[..BY].to_vec();
                        data.extend(std::iter::repeat(0u8).take(BY));
                        let mut rng = Script { data, pos: 0, err_mode: false, failed: false };
                        let x: $T = match a[0] {
                            "ssi" => <<$T as SampleUniform>::Sampler as UniformSampler>::sample_single_inclusive(lo, hi, &mut rng),
                            "ss" => <<$T as SampleUniform>::Sampler as UniformSampler>::sample_single(lo, hi, &mut rng),
                            "gri" => rng.gen_range(lo..=hi),
                            "gr" => rng.gen_range(lo..hi),
                            "uni" | "un" => sampler.as_ref().unwrap().sample(&mut rng),
                            _ => panic!("bad enum_words kind"),
                        };
                        let mut le = x.pat_to_le(); le.resize(8, 0);
                        res.push((u64::from_le_bytes(le[..8].try_into().unwrap()), rng.pos == BY));
                    }
                    enum_digest(bits, &res)
                }));
                Some(match r { Ok(s) => s, Err(e) => if e.is::<Exhausted>() { "exhausted".into() } else { "P".into() } })
            }
            // check_in_range cfg low high x incl : the crate's own `PartialOrd` through `Range(Inclusive)::contains`
            "check_in_range" => { let b: bool = if parse_bool(a[3]) { (v(0)..=v(1)).contains(&v(2)) } else { (v(0)..v(1)).contains(&v(2)) }; Some(b.out()) },
            _ => None,
        }
    }};
}

macro_rules! imp {
    ($U:ident, $I:ident, $D:ty, $N:literal) => {{
        fn run(signed: bool, op: &str, a: &[&str]) -> Option<String> {
            if signed { ops!(bnum::$I<$N>, op, a) } else { ops!(bnum::$U<$N>, op, a) }
        }
        Some(run as fn(bool, &str, &[&str]) -> Option<String>)
    }};
}

fn main() {
    serve(|op, cfg, args| {
        let (signed, c) = split_cfg(cfg);
        let f: Option<fn(bool, &str, &[&str]) -> Option<String>> = for_config!(c, imp);
        f.and_then(|f| f(signed, op, args))
    });
}
