//! C10 + C11: radix parsing and printing.
use bnum_verif_harness::*;
use core::num::IntErrorKind;
use core::str::FromStr;

fn kind(k: &IntErrorKind) -> &'static str {
    match k {
        IntErrorKind::Empty => "Empty",
        IntErrorKind::InvalidDigit => "InvalidDigit",
        IntErrorKind::PosOverflow => "PosOverflow",
        IntErrorKind::NegOverflow => "NegOverflow",
        IntErrorKind::Zero => "Zero",
        _ => "Other",
    }
}
fn pres<T: Pat>(r: Result<T, bnum::errors::ParseIntError>) -> String {
    match r { Ok(x) => format!("Ok({})", x.to_hex()), Err(e) => format!("Err({})", kind(e.kind())) }
}

macro_rules! ops {
    ($T:ty, $op:expr, $a:expr) => {{
        let a: &[&str] = $a;
        match $op {
            "from_str_radix" => {
                let b = parse_bytes(a[1]);
                match std::str::from_utf8(&b) { Ok(s) => Some(pres(<$T>::from_str_radix(s, parse_u32(a[0])))), Err(_) => Some("bad-utf8".into()) }
            }
            "parse_str_radix" => {
                let b = parse_bytes(a[1]);
                match std::str::from_utf8(&b) { Ok(s) => Some(<$T>::parse_str_radix(s, parse_u32(a[0])).to_hex()), Err(_) => Some("bad-utf8".into()) }
            }
            "from_str" => {
                let b = parse_bytes(a[0]);
                match std::str::from_utf8(&b) { Ok(s) => Some(pres(<$T as FromStr>::from_str(s))), Err(_) => Some("bad-utf8".into()) }
            }
            // `str::parse::<T>()` (the other spelling of `FromStr`)
            "str_parse" => {
                let b = parse_bytes(a[0]);
                match std::str::from_utf8(&b) { Ok(s) => Some(pres(s.parse::<$T>())), Err(_) => Some("bad-utf8".into()) }
            }
            "parse_bytes" => Some(<$T>::parse_bytes(&parse_bytes(a[1]), parse_u32(a[0])).out()),
            "from_radix_be" => Some(<$T>::from_radix_be(&parse_bytes(a[1]), parse_u32(a[0])).out()),
            "from_radix_le" => Some(<$T>::from_radix_le(&parse_bytes(a[1]), parse_u32(a[0])).out()),
            "to_str_radix" => Some(show_bytes(<$T>::from_hex(a[1]).to_str_radix(parse_u32(a[0])).as_bytes())),
            "to_radix_be" => Some(show_bytes(&<$T>::from_hex(a[1]).to_radix_be(parse_u32(a[0])))),
            "to_radix_le" => Some(show_bytes(&<$T>::from_hex(a[1]).to_radix_le(parse_u32(a[0])))),
            // round trips (C11): parse(print(a)) in one request
            "roundtrip_str" => { let x = <$T>::from_hex(a[1]); let r = parse_u32(a[0]); Some(pres(<$T>::from_str_radix(&x.to_str_radix(r), r))) }
            "roundtrip_be" => { let x = <$T>::from_hex(a[1]); let r = parse_u32(a[0]); Some(<$T>::from_radix_be(&x.to_radix_be(r), r).out()) }
            "roundtrip_le" => { let x = <$T>::from_hex(a[1]); let r = parse_u32(a[0]); Some(<$T>::from_radix_le(&x.to_radix_le(r), r).out()) }
            _ => None,
        }
    }};
}

macro_rules! imp {
    ($U:ident, $I:ident, $D:ty, $N:literal) => {{
        fn run(signed: bool, op: &str, a: &[&str]) -> Option<String> {
            if signed { ops!(bnum::$I<$N>, op, a) } else { ops!(bnum::$U<$N>, op, a) }
        }
        Some(run as fn(bool, &str, &[&str]) -> Option<String>)
    }};
}

fn main() {
    serve(|op, cfg, args| {
        let (signed, c) = split_cfg(cfg);
        let f: Option<fn(bool, &str, &[&str]) -> Option<String>> = for_config!(c, imp);
        f.and_then(|f| f(signed, op, args))
    });
}
