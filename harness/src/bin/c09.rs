//! C09: `As`/`CastFrom` between integer types, bool/char sources, reinterpretations.
//!
//! Two independent routes to every cast:
//!   `cast <src> <dst> <hex>`  calls `<D as CastFrom<S>>::cast_from`; `BInt` operands/results go through
//!                             `Pat` (i.e. `from_bits` / `to_bits`);
//!   `as   <src> <dst> <hex>`  calls the blanket `As::as_::<D>`; `BInt` operands are built through
//!                             `as_bits_mut().digits_mut()` and results read through `as_bits().digits()`
//!                             (`Raw`), so that `from_bits`/`to_bits` are not involved at all.
//! Types: the 40 bnum types + 12 primitives of `for_type!` (every ordered pair, primitive -> primitive
//! included: `primitive_cast_impl!` in `src/cast/mod.rs` is bnum code too), and a WIDE set local to this
//! bin (`for_wide!`: 8192-bit and just-below-8192-bit instantiations of every digit type) that is paired
//! with itself, with the primitives and with a few small bnum types (`for_small!`).
use bnum_verif_harness::*;
use bnum::cast::{As, CastFrom};

/// hex <-> integer without `BInt::from_bits` / `BInt::to_bits`
trait Raw: Sized {
    fn raw_from_hex(s: &str) -> Self;
    fn raw_to_hex(&self) -> String;
}
macro_rules! raw_prim {
    ($($t:ty),*) => {$(
        impl Raw for $t {
            fn raw_from_hex(s: &str) -> Self { <$t as Pat>::from_hex(s) }
            fn raw_to_hex(&self) -> String { Pat::to_hex(self) }
        }
    )*};
}
raw_prim!(u8, u16, u32, u64, u128, usize, i8, i16, i32, i64, i128, isize);
macro_rules! raw_bnum {
    ($U:ident, $I:ident) => {
        impl<const N: usize> Raw for bnum::$U<N> {
            fn raw_from_hex(s: &str) -> Self { <Self as Pat>::from_hex(s) }
            fn raw_to_hex(&self) -> String { Pat::to_hex(self) }
        }
        impl<const N: usize> Raw for bnum::$I<N> {
            fn raw_from_hex(s: &str) -> Self {
                let u = <bnum::$U<N> as Pat>::from_hex(s);
                let mut r = Self::ZERO;
                *r.as_bits_mut().digits_mut() = *u.digits();
                r
            }
            fn raw_to_hex(&self) -> String {
                let b: Vec<u8> = self.as_bits().digits().iter().flat_map(|d| d.to_le_bytes()).collect();
                le_bytes_to_hex(&b)
            }
        }
    };
}
raw_bnum!(BUint, BInt);
raw_bnum!(BUintD32, BIntD32);
raw_bnum!(BUintD16, BIntD16);
raw_bnum!(BUintD8, BIntD8);

/// `CastFrom::cast_from`, I/O through `Pat`
#[inline(never)]
fn cast_pair<S: Pat, D: Pat + CastFrom<S>>(x: &str) -> String {
    Pat::to_hex(&<D as CastFrom<S>>::cast_from(<S as Pat>::from_hex(x)))
}
/// `As::as_`, I/O through `Raw`
#[inline(never)]
fn as_pair<S: Raw, D: Raw + CastFrom<S>>(x: &str) -> String {
    Raw::raw_to_hex(&As::as_::<D>(<S as Raw>::raw_from_hex(x)))
}
/// both routes (the pairs outside the 52 x 52 grid of `for_type!`)
fn both_pair<S: Pat + Raw, D: Pat + Raw + CastFrom<S>>(via_as: bool, x: &str) -> String {
    if via_as { as_pair::<S, D>(x) } else { cast_pair::<S, D>(x) }
}
#[inline(never)]
fn cast_bool<D: Pat + Raw + CastFrom<bool>>(via_as: bool, x: &str) -> String {
    let b = x != "0";
    if via_as { Raw::raw_to_hex(&As::as_::<D>(b)) } else { Pat::to_hex(&<D as CastFrom<bool>>::cast_from(b)) }
}
#[inline(never)]
fn cast_char<D: Pat + Raw + CastFrom<char>>(via_as: bool, x: &str) -> String {
    let c = char::from_u32(u32::from_str_radix(x, 16).unwrap()).expect("char");
    if via_as { Raw::raw_to_hex(&As::as_::<D>(c)) } else { Pat::to_hex(&<D as CastFrom<char>>::cast_from(c)) }
}
fn same<T: PartialEq>(a: T, b: T) -> bool { a == b }

/// the wide instantiations (8192 bits, and the widest digit counts that are not a multiple of the
/// digit-size ratios, so that the last packed digit is partial)
macro_rules! for_wide {
    ($name:expr, $m:ident ! ( $($extra:tt)* )) => {
        match $name {
            "u8x1024" => $m!(bn u (bnum::BUintD8<1024>) $($extra)*),
            "i8x1024" => $m!(bn i (bnum::BIntD8<1024>) $($extra)*),
            "u8x1021" => $m!(bn u (bnum::BUintD8<1021>) $($extra)*),
            "i8x1021" => $m!(bn i (bnum::BIntD8<1021>) $($extra)*),
            "u16x512" => $m!(bn u (bnum::BUintD16<512>) $($extra)*),
            "i16x512" => $m!(bn i (bnum::BIntD16<512>) $($extra)*),
            "u32x256" => $m!(bn u (bnum::BUintD32<256>) $($extra)*),
            "i32x256" => $m!(bn i (bnum::BIntD32<256>) $($extra)*),
            "u64x128" => $m!(bn u (bnum::BUint<128>) $($extra)*),
            "i64x128" => $m!(bn i (bnum::BInt<128>) $($extra)*),
            "u64x127" => $m!(bn u (bnum::BUint<127>) $($extra)*),
            "i64x127" => $m!(bn i (bnum::BInt<127>) $($extra)*),
            _ => None,
        }
    };
}
fn is_wide(name: &str) -> bool {
    matches!(name, "u8x1024" | "i8x1024" | "u8x1021" | "i8x1021" | "u16x512" | "i16x512"
        | "u32x256" | "i32x256" | "u64x128" | "i64x128" | "u64x127" | "i64x127")
}
/// the partners of the wide types other than the wide types themselves: a few small bnum types and
/// the primitives
macro_rules! for_small {
    ($name:expr, $m:ident ! ( $($extra:tt)* )) => {
        match $name {
            "i8x3" => $m!(bn i (bnum::BIntD8<3>) $($extra)*),
            "u8x17" => $m!(bn u (bnum::BUintD8<17>) $($extra)*),
            "i16x5" => $m!(bn i (bnum::BIntD16<5>) $($extra)*),
            "u16x1" => $m!(bn u (bnum::BUintD16<1>) $($extra)*),
            "i32x3" => $m!(bn i (bnum::BIntD32<3>) $($extra)*),
            "u32x6" => $m!(bn u (bnum::BUintD32<6>) $($extra)*),
            "i64x1" => $m!(bn i (bnum::BInt<1>) $($extra)*),
            "u64x3" => $m!(bn u (bnum::BUint<3>) $($extra)*),
            "u8" => $m!(pr u (u8) $($extra)*),
            "u16" => $m!(pr u (u16) $($extra)*),
            "u32" => $m!(pr u (u32) $($extra)*),
            "u64" => $m!(pr u (u64) $($extra)*),
            "u128" => $m!(pr u (u128) $($extra)*),
            "usize" => $m!(pr u (usize) $($extra)*),
            "i8" => $m!(pr i (i8) $($extra)*),
            "i16" => $m!(pr i (i16) $($extra)*),
            "i32" => $m!(pr i (i32) $($extra)*),
            "i64" => $m!(pr i (i64) $($extra)*),
            "i128" => $m!(pr i (i128) $($extra)*),
            "isize" => $m!(pr i (isize) $($extra)*),
            _ => None,
        }
    };
}

// `for_type!` / `for_wide!` / `for_small!` put the matched type first.
// grid x grid: the outer pass matches the *destination*, the inner one the source.
macro_rules! by_dst {
    ($dk:ident $ds:ident ($D:ty) $src:ident $x:ident) => { for_type!($src, fin_grid!(($D) $x)) };
}
macro_rules! fin_grid {
    ($sk:ident $ss:ident ($S:ty) ($D:ty) $x:ident) => { Some(cast_pair::<$S, $D>($x)) };
}
/// small x small (both routes): matched = small DESTINATION
macro_rules! small_dst {
    ($dk:ident $ds:ident ($D:ty) $src:ident $via:ident $x:ident) => { for_small!($src, fin_src!(($D) $via $x)) };
}
/// matched type = SOURCE, the destination type is in the extras
macro_rules! fin_src {
    ($sk:ident $ss:ident ($S:ty) ($D:ty) $via:ident $x:ident) => { Some(both_pair::<$S, $D>($via, $x)) };
}
/// matched type = DESTINATION, the source type is in the extras (`cast` route only)
macro_rules! fin_dst {
    ($dk:ident $ds:ident ($D:ty) ($S:ty) $x:ident) => { Some(cast_pair::<$S, $D>($x)) };
}
/// matched: a wide SOURCE; destination = any wide or small type
macro_rules! wide_src {
    ($sk:ident $ss:ident ($S:ty) $dst:ident $x:ident) => {
        match for_wide!($dst, fin_dst!(($S) $x)) {
            Some(r) => Some(r),
            None => for_small!($dst, fin_dst!(($S) $x)),
        }
    };
}
/// matched: a wide DESTINATION; source = a small type
macro_rules! wide_dst {
    ($dk:ident $ds:ident ($D:ty) $src:ident $x:ident) => { for_small!($src, fin_grid!(($D) $x)) };
}
macro_rules! from_bool { ($dk:ident $ds:ident ($D:ty) $via:ident $x:ident) => { Some(cast_bool::<$D>($via, $x)) }; }
macro_rules! from_char { ($dk:ident $ds:ident ($D:ty) $via:ident $x:ident) => { Some(cast_char::<$D>($via, $x)) }; }

macro_rules! reinterp {
    (bn u ($D:ty) $op:ident $x:ident) => { match $op {
        "cast_signed" => Some(Pat::to_hex(&<$D as Pat>::from_hex($x).cast_signed())),
        // result read through `as_bits().digits()` and `is_negative()`, not through `to_bits`
        "cast_signed_obs" => { let r = <$D as Pat>::from_hex($x).cast_signed();
            Some(format!("{}/{}", Raw::raw_to_hex(&r), r.is_negative())) }
        // `cast_signed` against the same-width `As` cast
        "reinterp_vs_cast" => { let u = <$D as Pat>::from_hex($x);
            Some(format!("{}", same(u.cast_signed(), CastFrom::cast_from(u)))) }
        _ => None } };
    (bn i ($D:ty) $op:ident $x:ident) => { match $op {
        "cast_unsigned" => Some(Pat::to_hex(&<$D as Pat>::from_hex($x).cast_unsigned())),
        "to_bits" => Some(Pat::to_hex(&<$D as Pat>::from_hex($x).to_bits())),
        "from_bits" => Some(Pat::to_hex(&<$D>::from_bits(Pat::from_hex($x)))),
        // operand built through `as_bits_mut`, not through `from_bits`
        "cast_unsigned_obs" => Some(Pat::to_hex(&<$D as Raw>::raw_from_hex($x).cast_unsigned())),
        "to_bits_obs" => Some(Pat::to_hex(&<$D as Raw>::raw_from_hex($x).to_bits())),
        // result read through `as_bits().digits()` and `is_negative()`, not through `to_bits`
        "from_bits_obs" => { let r = <$D>::from_bits(Pat::from_hex($x));
            Some(format!("{}/{}", Raw::raw_to_hex(&r), r.is_negative())) }
        // `cast_unsigned`, `to_bits`, `from_bits` against the same-width `As` casts
        "reinterp_vs_cast" => { let y = <$D as Raw>::raw_from_hex($x); let u = *y.as_bits();
            Some(format!("{}/{}/{}", same(y.cast_unsigned(), CastFrom::cast_from(y)), same(y.to_bits(), CastFrom::cast_from(y)),
                same(<$D>::from_bits(u), CastFrom::cast_from(u)))) }
        _ => None } };
    (pr $s:ident ($D:ty) $op:ident $x:ident) => { None };
}

fn main() {
    // requests: `cast|as <src> <dst> <hex>`; `cast|as bool <dst> 0|1`; `cast|as char <dst> <hex scalar>`;
    //           `cast_signed <cfg> <hex>` etc.
    serve(|op, a0, args| {
        match op {
            "cast" | "as" => {
                let src = a0;
                let dst = args[0];
                let x = args[1];
                let via = op == "as";
                let _ = (src, x, via);
                match src {
                    "bool" => if is_wide(dst) { for_wide!(dst, from_bool!(via x)) } else { for_type!(dst, from_bool!(via x)) },
                    "char" => if is_wide(dst) { for_wide!(dst, from_char!(via x)) } else { for_type!(dst, from_char!(via x)) },
                    _ if is_wide(src) && !via => for_wide!(src, wide_src!(dst x)),
                    _ if is_wide(dst) && !via => for_wide!(dst, wide_dst!(src x)),
                    _ if via => for_small!(dst, small_dst!(src via x)),
                    _ => for_type!(dst, by_dst!(src x)),
                }
            }
            "cast_signed" | "cast_unsigned" | "to_bits" | "from_bits" | "cast_signed_obs" | "cast_unsigned_obs"
            | "to_bits_obs" | "from_bits_obs" | "reinterp_vs_cast" => {
                let x = args[0];
                if is_wide(a0) { for_wide!(a0, reinterp!(op x)) } else { for_type!(a0, reinterp!(op x)) }
            }
            _ => None,
        }
    });
}
