//! C09: `As`/`CastFrom` between integer types, bool/char sources, reinterpretations.
use bnum_verif_harness::*;
use bnum::cast::CastFrom;

macro_rules! inner {
    // primitive -> primitive casts are not bnum's code
    (pr $ds:ident ($D:ty) pr $ss:ident ($S:ty) $x:ident) => { None };
    ($dk:ident $ds:ident ($D:ty) $sk:ident $ss:ident ($S:ty) $x:ident) => {
        Some(Pat::to_hex(&<$D as CastFrom<$S>>::cast_from(<$S as Pat>::from_hex($x))))
    };
}
macro_rules! outer {
    ($sk:ident $ss:ident ($S:ty) $dst:ident $x:ident) => { for_type!($dst, inner!($sk $ss ($S) $x)) };
}
// `for_type!` puts the matched type first, so the outer pass matches the *destination*:
macro_rules! by_dst {
    ($dk:ident $ds:ident ($D:ty) $src:ident $x:ident) => { for_type!($src, by_src!($dk $ds ($D) $x)) };
}
macro_rules! by_src {
    ($sk:ident $ss:ident ($S:ty) $dk:ident $ds:ident ($D:ty) $x:ident) => { inner!($dk $ds ($D) $sk $ss ($S) $x) };
}
macro_rules! from_bool { ($dk:ident $ds:ident ($D:ty) $x:ident) => { Some(Pat::to_hex(&<$D as CastFrom<bool>>::cast_from($x != "0"))) }; }
macro_rules! from_char { ($dk:ident $ds:ident ($D:ty) $x:ident) => {
    Some(Pat::to_hex(&<$D as CastFrom<char>>::cast_from(char::from_u32(u32::from_str_radix($x, 16).unwrap()).expect("char")))) }; }
macro_rules! reinterp {
    (bn u ($D:ty) $op:ident $x:ident) => { match $op { "cast_signed" => Some(Pat::to_hex(&<$D as Pat>::from_hex($x).cast_signed())), _ => None } };
    (bn i ($D:ty) $op:ident $x:ident) => { match $op {
        "cast_unsigned" => Some(Pat::to_hex(&<$D as Pat>::from_hex($x).cast_unsigned())),
        "to_bits" => Some(Pat::to_hex(&<$D as Pat>::from_hex($x).to_bits())),
        "from_bits" => Some(Pat::to_hex(&<$D>::from_bits(Pat::from_hex($x)))),
        _ => None } };
    (pr $s:ident ($D:ty) $op:ident $x:ident) => { None };
}

fn main() {
    // requests: `cast <src> <dst> <hex>`; `cast bool <dst> 0|1`; `cast char <dst> <hex scalar>`;
    //           `cast_signed <cfg> <hex>` etc.
    serve(|op, a0, args| {
        match op {
            "cast" => {
                let src = a0;
                let dst = args[0];
                let x = args[1];
                let _ = (src, x);
                match src {
                    "bool" => for_type!(dst, from_bool!(x)),
                    "char" => for_type!(dst, from_char!(x)),
                    _ => for_type!(dst, by_dst!(src x)),
                }
            }
            "cast_signed" | "cast_unsigned" | "to_bits" | "from_bits" => {
                let x = args[0];
                for_type!(a0, reinterp!(op x))
            }
            _ => None,
        }
    });
}
