//! C18: num_traits / num_integer implementations, called THROUGH THE TRAITS.
#![allow(deprecated)]
use bnum_verif_harness::*;
use num_integer::{Integer, Roots};
use num_traits::{Bounded, CheckedAdd, CheckedDiv, CheckedMul, CheckedNeg, CheckedRem, CheckedShl, CheckedShr, CheckedSub, Euclid, MulAdd,
    MulAddAssign, Num, One, Pow, PrimInt, Saturating, SaturatingAdd, SaturatingMul, SaturatingSub, Signed, WrappingAdd, WrappingMul,
    WrappingNeg, WrappingShl, WrappingShr, WrappingSub, Zero};
use num_traits::ops::overflowing::{OverflowingAdd, OverflowingSub};
use num_traits::ops::euclid::CheckedEuclid;

macro_rules! common {
    ($T:ty, $op:expr, $a:expr) => {{
        let a: &[&str] = $a;
        let v = |i: usize| <$T>::from_hex(a[i]);
        match $op {
            "gcd" => return Some(Integer::gcd(&v(0), &v(1)).out()),
            "lcm" => return Some(Integer::lcm(&v(0), &v(1)).out()),
            "div_floor" => return Some(Integer::div_floor(&v(0), &v(1)).out()),
            "mod_floor" => return Some(Integer::mod_floor(&v(0), &v(1)).out()),
            "div_rem" => return Some(Integer::div_rem(&v(0), &v(1)).out()),
            "div_mod_floor" => return Some(Integer::div_mod_floor(&v(0), &v(1)).out()),
            "is_multiple_of" => return Some(Integer::is_multiple_of(&v(0), &v(1)).out()),
            "divides" => return Some(Integer::divides(&v(0), &v(1)).out()),
            // num-integer's provided methods (not overridden by bnum): run on the crate's operators
            "div_ceil" => return Some(Integer::div_ceil(&v(0), &v(1)).out()),
            "next_multiple_of" => return Some(Integer::next_multiple_of(&v(0), &v(1)).out()),
            "prev_multiple_of" => return Some(Integer::prev_multiple_of(&v(0), &v(1)).out()),
            "gcd_lcm" => return Some(Integer::gcd_lcm(&v(0), &v(1)).out()),
            "inc" => { let mut x = v(0); Integer::inc(&mut x); return Some(x.out()) }
            "dec" => { let mut x = v(0); Integer::dec(&mut x); return Some(x.out()) }
            "is_even" => return Some(Integer::is_even(&v(0)).out()),
            "is_odd" => return Some(Integer::is_odd(&v(0)).out()),
            "sqrt" => return Some(Roots::sqrt(&v(0)).out()),
            "cbrt" => return Some(Roots::cbrt(&v(0)).out()),
            "nth_root" => return Some(Roots::nth_root(&v(0), parse_u32(a[1])).out()),
            "checked_add" => return Some(CheckedAdd::checked_add(&v(0), &v(1)).out()),
            "checked_sub" => return Some(CheckedSub::checked_sub(&v(0), &v(1)).out()),
            "checked_mul" => return Some(CheckedMul::checked_mul(&v(0), &v(1)).out()),
            "checked_div" => return Some(CheckedDiv::checked_div(&v(0), &v(1)).out()),
            "checked_rem" => return Some(CheckedRem::checked_rem(&v(0), &v(1)).out()),
            "checked_neg" => return Some(CheckedNeg::checked_neg(&v(0)).out()),
            "checked_div_euclid" => return Some(CheckedEuclid::checked_div_euclid(&v(0), &v(1)).out()),
            "checked_rem_euclid" => return Some(CheckedEuclid::checked_rem_euclid(&v(0), &v(1)).out()),
            "wrapping_add" => return Some(WrappingAdd::wrapping_add(&v(0), &v(1)).out()),
            "wrapping_sub" => return Some(WrappingSub::wrapping_sub(&v(0), &v(1)).out()),
            "wrapping_mul" => return Some(WrappingMul::wrapping_mul(&v(0), &v(1)).out()),
            "wrapping_neg" => return Some(WrappingNeg::wrapping_neg(&v(0)).out()),
            "saturating_add" => return Some(Saturating::saturating_add(v(0), v(1)).out()),
            "saturating_sub" => return Some(Saturating::saturating_sub(v(0), v(1)).out()),
            "saturating_add_ref" => return Some(SaturatingAdd::saturating_add(&v(0), &v(1)).out()),
            "saturating_sub_ref" => return Some(SaturatingSub::saturating_sub(&v(0), &v(1)).out()),
            "saturating_mul_ref" => return Some(SaturatingMul::saturating_mul(&v(0), &v(1)).out()),
            "checked_shl" => return Some(CheckedShl::checked_shl(&v(0), parse_u32(a[1])).out()),
            "checked_shr" => return Some(CheckedShr::checked_shr(&v(0), parse_u32(a[1])).out()),
            "wrapping_shl" => return Some(WrappingShl::wrapping_shl(&v(0), parse_u32(a[1])).out()),
            "wrapping_shr" => return Some(WrappingShr::wrapping_shr(&v(0), parse_u32(a[1])).out()),
            "overflowing_add" => return Some(OverflowingAdd::overflowing_add(&v(0), &v(1)).out()),
            "overflowing_sub" => return Some(OverflowingSub::overflowing_sub(&v(0), &v(1)).out()),
            "pow" => return Some(Pow::pow(v(0), parse_u32(a[1])).out()),
            "primint_pow" => return Some(PrimInt::pow(v(0), parse_u32(a[1])).out()),
            "mul_add_assign" => { let mut x = v(0); MulAddAssign::mul_add_assign(&mut x, v(1), v(2)); return Some(x.out()) }
            "mul_add" => return Some(MulAdd::mul_add(v(0), v(1), v(2)).out()),
            "div_euclid" => return Some(Euclid::div_euclid(&v(0), &v(1)).out()),
            "rem_euclid" => return Some(Euclid::rem_euclid(&v(0), &v(1)).out()),
            "count_ones" => return Some(Dec(PrimInt::count_ones(v(0))).out()),
            "count_zeros" => return Some(Dec(PrimInt::count_zeros(v(0))).out()),
            "leading_zeros" => return Some(Dec(PrimInt::leading_zeros(v(0))).out()),
            "trailing_zeros" => return Some(Dec(PrimInt::trailing_zeros(v(0))).out()),
            "leading_ones" => return Some(Dec(PrimInt::leading_ones(v(0))).out()),
            "trailing_ones" => return Some(Dec(PrimInt::trailing_ones(v(0))).out()),
            "reverse_bits" => return Some(PrimInt::reverse_bits(v(0)).out()),
            "from_be" => return Some(<$T as PrimInt>::from_be(v(0)).out()),
            "from_le" => return Some(<$T as PrimInt>::from_le(v(0)).out()),
            "rotate_left" => return Some(PrimInt::rotate_left(v(0), parse_u32(a[1])).out()),
            "rotate_right" => return Some(PrimInt::rotate_right(v(0), parse_u32(a[1])).out()),
            "swap_bytes" => return Some(PrimInt::swap_bytes(v(0)).out()),
            "unsigned_shl" => return Some(PrimInt::unsigned_shl(v(0), parse_u32(a[1])).out()),
            "unsigned_shr" => return Some(PrimInt::unsigned_shr(v(0), parse_u32(a[1])).out()),
            "signed_shl" => return Some(PrimInt::signed_shl(v(0), parse_u32(a[1])).out()),
            "signed_shr" => return Some(PrimInt::signed_shr(v(0), parse_u32(a[1])).out()),
            "to_be" => return Some(PrimInt::to_be(v(0)).out()),
            "to_le" => return Some(PrimInt::to_le(v(0)).out()),
            "min_value" => return Some(<$T as Bounded>::min_value().out()),
            "max_value" => return Some(<$T as Bounded>::max_value().out()),
            "zero" => return Some(<$T as Zero>::zero().out()),
            "one" => return Some(<$T as One>::one().out()),
            "is_zero" => return Some(Zero::is_zero(&v(0)).out()),
            "is_one" => return Some(One::is_one(&v(0)).out()),
            "from_str_radix" => {
                let b = parse_bytes(a[1]);
                return Some(match std::str::from_utf8(&b) {
                    Ok(s) => match <$T as Num>::from_str_radix(s, parse_u32(a[0])) { Ok(x) => format!("Ok({})", x.to_hex()), Err(e) => format!("Err({:?})", e.kind()) },
                    Err(_) => "bad-utf8".into(),
                })
            }
            _ => {}
        }
    }};
}

macro_rules! imp {
    ($U:ident, $I:ident, $D:ty, $N:literal) => {{
        type UT = bnum::$U<$N>;
        type IT = bnum::$I<$N>;
        fn run_u(op: &str, a: &[&str]) -> Option<String> { common!(UT, op, a); None }
        fn run_i(op: &str, a: &[&str]) -> Option<String> {
            common!(IT, op, a);
            let v = |i: usize| IT::from_hex(a[i]);
            match op {
                "abs" => Some(Signed::abs(&v(0)).out()),
                "abs_sub" => Some(Signed::abs_sub(&v(0), &v(1)).out()),
                "signum" => Some(Signed::signum(&v(0)).out()),
                "is_positive" => Some(Signed::is_positive(&v(0)).out()),
                "is_negative" => Some(Signed::is_negative(&v(0)).out()),
                _ => None,
            }
        }
        fn run(signed: bool, op: &str, a: &[&str]) -> Option<String> { if signed { run_i(op, a) } else { run_u(op, a) } }
        Some(run as fn(bool, &str, &[&str]) -> Option<String>)
    }};
}

fn main() {
    serve(|op, cfg, args| {
        // every op may carry the `nt_` prefix (routes the request to the C18 model) and an optional `dbg|rel` word
        let op = op.strip_prefix("nt_").unwrap_or(op);
        let mut args = args;
        if !args.is_empty() && (args[0] == "dbg" || args[0] == "rel") {
            if !mode_ok(args[0]) { return Some("skip".into()); }
            args = &args[1..];
        }
        let (signed, c) = split_cfg(cfg);
        let f: Option<fn(bool, &str, &[&str]) -> Option<String>> = for_config!(c, imp);
        f.and_then(|f| f(signed, op, args))
    });
}
