//! C12: formatting traits. `fmt cfg <trait> <flags> <width|-> a` -> hex bytes of the produced text;
//! `fmt_prim <prim> <trait> <flags> <width|-> a` the same for a primitive integer (oracle at 8..128 bits).
use bnum_verif_harness::fmtgen::{fmt_dyn, AllFmt};
use bnum_verif_harness::*;

fn go(x: &dyn AllFmt, a: &[&str]) -> Option<String> {
    let width = if a[2] == "-" { None } else { Some(a[2].parse::<usize>().ok()?) };
    fmt_dyn(a[0], a[1], width, x).map(|s| show_bytes(s.as_bytes()))
}

macro_rules! imp {
    ($U:ident, $I:ident, $D:ty, $N:literal) => {{
        fn run(signed: bool, op: &str, a: &[&str]) -> Option<String> {
            if op != "fmt" { return None; }
            if signed { go(&<bnum::$I<$N>>::from_hex(a[3]), a) } else { go(&<bnum::$U<$N>>::from_hex(a[3]), a) }
        }
        Some(run as fn(bool, &str, &[&str]) -> Option<String>)
    }};
}
macro_rules! prim { ($name:expr, $a:expr, $($t:ident),*) => { match $name { $( stringify!($t) => go(&<$t as Pat>::from_hex($a[3]), $a), )* _ => None } } }

fn main() {
    serve(|op, cfg, args| {
        if op == "fmt_prim" {
            return prim!(cfg, args, u8, u16, u32, u64, u128, i8, i16, i32, i64, i128);
        }
        let (signed, c) = split_cfg(cfg);
        let f: Option<fn(bool, &str, &[&str]) -> Option<String>> = for_config!(c, imp);
        f.and_then(|f| f(signed, op, args))
    });
}
