//! C12: formatting traits. `fmt cfg <trait> <flags> <width|-> a` -> hex bytes of the produced text;
//! `fmt_prim <prim> <trait> <flags> <width|-> a` the same for a primitive integer (oracle: the primitive of
//! equal width at 8..128 bits, `u128`/`i128` holding the same value for the other widths below 128 bits).
//! Fill classes (second flag character, only read when an alignment is given): `d` default `' '`, `s` `'*'`
//! (both through `fmtgen::fmt_dyn`), and here `u` `'€'` (3 bytes), `o` `'0'`, `e` `'é'` (2 bytes),
//! `g` `'𝄞'` (4 bytes): `pad_integral` counts the width in chars and writes the fill as a `char`.
use bnum_verif_harness::fmtgen::{fmt_dyn, AllFmt};
use bnum_verif_harness::*;

// one literal format string per (fill, alignment, `+`, `#`, `0`, width given, trait): the pieces are
// accumulated as literals and joined by `concat!` in the order of the format-spec grammar
// `[[fill]align][sign]['#']['0'][width][type]`
macro_rules! lit {
    ($x:expr, $w:expr, $ty:literal, [$($p:literal,)*]) => {
        match $w {
            None => format!(concat!("{:", $($p,)* $ty, "}"), $x),
            Some(w) => format!(concat!("{:", $($p,)* "w$", $ty, "}"), $x, w = w),
        }
    };
}
macro_rules! zero {
    ($c:ident, $x:expr, $w:expr, $ty:literal, [$($p:literal,)*]) => {
        if $c[4] == b'z' { lit!($x, $w, $ty, [$($p,)* "0",]) } else { lit!($x, $w, $ty, [$($p,)*]) }
    };
}
macro_rules! alt {
    ($c:ident, $x:expr, $w:expr, $ty:literal, [$($p:literal,)*]) => {
        if $c[3] == b'a' { zero!($c, $x, $w, $ty, [$($p,)* "#",]) } else { zero!($c, $x, $w, $ty, [$($p,)*]) }
    };
}
macro_rules! sign {
    ($c:ident, $x:expr, $w:expr, $ty:literal, [$($p:literal,)*]) => {
        if $c[2] == b'p' { alt!($c, $x, $w, $ty, [$($p,)* "+",]) } else { alt!($c, $x, $w, $ty, [$($p,)*]) }
    };
}
macro_rules! align {
    ($c:ident, $x:expr, $w:expr, $ty:literal, $fill:literal) => {
        match $c[0] {
            b'l' => sign!($c, $x, $w, $ty, [$fill, "<",]),
            b'c' => sign!($c, $x, $w, $ty, [$fill, "^",]),
            b'r' => sign!($c, $x, $w, $ty, [$fill, ">",]),
            _ => return None,
        }
    };
}
macro_rules! fill {
    ($c:ident, $x:expr, $w:expr, $ty:literal) => {
        match $c[1] {
            b'u' => align!($c, $x, $w, $ty, "€"),
            b'o' => align!($c, $x, $w, $ty, "0"),
            b'e' => align!($c, $x, $w, $ty, "é"),
            b'g' => align!($c, $x, $w, $ty, "𝄞"),
            _ => return None,
        }
    };
}

/// the fill classes `fmtgen` does not know (`flags` as there; an alignment is required)
fn fmt_fill(tr: &str, flags: &str, width: Option<usize>, x: &dyn AllFmt) -> Option<String> {
    let c = flags.as_bytes();
    if c.len() != 5 || !matches!(c[2], b'p' | b'-') || !matches!(c[3], b'a' | b'-') || !matches!(c[4], b'z' | b'-') {
        return None;
    }
    Some(match tr {
        "display" => fill!(c, x, width, ""),
        "debug" => fill!(c, x, width, "?"),
        "binary" => fill!(c, x, width, "b"),
        "octal" => fill!(c, x, width, "o"),
        "lower_hex" => fill!(c, x, width, "x"),
        "upper_hex" => fill!(c, x, width, "X"),
        "lower_exp" => fill!(c, x, width, "e"),
        "upper_exp" => fill!(c, x, width, "E"),
        _ => return None,
    })
}

fn go(x: &dyn AllFmt, a: &[&str]) -> Option<String> {
    let width = if a[2] == "-" { None } else { Some(a[2].parse::<usize>().ok()?) };
    let f = a[1].as_bytes();
    let s = if f.len() == 5 && f[0] != b'n' && matches!(f[1], b'u' | b'o' | b'e' | b'g') {
        fmt_fill(a[0], a[1], width, x)
    } else {
        fmt_dyn(a[0], a[1], width, x)
    };
    s.map(|s| show_bytes(s.as_bytes()))
}

macro_rules! imp {
    ($U:ident, $I:ident, $D:ty, $N:literal) => {{
        fn run(signed: bool, op: &str, a: &[&str]) -> Option<String> {
            if op != "fmt" { return None; }
            if signed { go(&<bnum::$I<$N>>::from_hex(a[3]), a) } else { go(&<bnum::$U<$N>>::from_hex(a[3]), a) }
        }
        Some(run as fn(bool, &str, &[&str]) -> Option<String>)
    }};
}
macro_rules! prim { ($name:expr, $a:expr, $($t:ident),*) => { match $name { $( stringify!($t) => go(&<$t as Pat>::from_hex($a[3]), $a), )* _ => None } } }

fn main() {
    serve(|op, cfg, args| {
        if op == "fmt_prim" {
            return prim!(cfg, args, u8, u16, u32, u64, u128, i8, i16, i32, i64, i128);
        }
        let (signed, c) = split_cfg(cfg);
        let f: Option<fn(bool, &str, &[&str]) -> Option<String>> = for_config!(c, imp);
        f.and_then(|f| f(signed, op, args))
    });
}
