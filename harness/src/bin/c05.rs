//! C05: shifts and rotations.
//!
//! `op cfg a k` for overflowing_/checked_/wrapping_/unbounded_/strict_ shl and shr, rotate_left/right;
//! `shl|shr cfg dbg|rel a k`          the inherent `trait_fillers!` functions `x.shl(k)`, `x.shr(k)`;
//! `shl_op|shr_op cfg dbg|rel a k`    the operators `x << k`, `x >> k` (`Shl<ExpType>` / `Shr<ExpType>`);
//! `shl_assign|shr_assign cfg dbg|rel a k`   `x <<= k`, `x >>= k` (`ShlAssign<u32>` / `ShrAssign<u32>`);
//! `unchecked_shl|unchecked_shr cfg a k`     the `unsafe` methods; only legal for `k < BITS` — for any
//!     other amount the call would be undefined behaviour, so the harness refuses the request (`bad-op`).
use bnum_verif_harness::*;
use core::ops::{Shl, ShlAssign, Shr, ShrAssign};

macro_rules! extra {
    ($T:ty, $op:expr, $a:expr) => {{
        let op: &str = $op;
        let a: &[&str] = $a;
        match op {
            "unchecked_shl" | "unchecked_shr" => {
                let x = <$T>::from_hex(a[0]);
                let k = parse_u32(a[1]);
                if k >= <$T>::BITS {
                    return None; // would be UB: never executed
                }
                return Some(if op == "unchecked_shl" { unsafe { x.unchecked_shl(k) }.out() } else { unsafe { x.unchecked_shr(k) }.out() });
            }
            "shl_op" | "shr_op" | "shl_assign" | "shr_assign" => {
                if !mode_ok(a[0]) {
                    return Some("skip".into());
                }
                let x = <$T>::from_hex(a[1]);
                let k: u32 = parse_u32(a[2]);
                return Some(match op {
                    "shl_op" => (x << k).out(),
                    "shr_op" => (x >> k).out(),
                    "shl_assign" => { let mut z = x; <$T as ShlAssign<u32>>::shl_assign(&mut z, k); z.out() }
                    _ => { let mut z = x; <$T as ShrAssign<u32>>::shr_assign(&mut z, k); z.out() }
                });
            }
            _ => {}
        }
    }};
}

/// the operators must resolve to the trait impls for `u32` (not to the inherent `shl`/`shr`)
#[allow(dead_code)]
fn _assert_traits<T: Shl<u32, Output = T> + Shr<u32, Output = T> + ShlAssign<u32> + ShrAssign<u32>>() {}

macro_rules! imp {
    ($U:ident, $I:ident, $D:ty, $N:literal) => {{
        type UT = bnum::$U<$N>;
        type IT = bnum::$I<$N>;
        fn run(signed: bool, op: &str, a: &[&str]) -> Option<String> {
            let u = |i: usize| UT::from_hex(a[i]);
            let s = |i: usize| IT::from_hex(a[i]);
            let k = |i: usize| parse_u32(a[i]);
            if !signed {
                bin_ops!(op, u, k, overflowing_shl, overflowing_shr, checked_shl, checked_shr, wrapping_shl, wrapping_shr,
                    unbounded_shl, unbounded_shr, rotate_left, rotate_right, strict_shl, strict_shr);
                bin_ops_mode!(op, a, u, k, shl, shr);
                extra!(UT, op, a);
            } else {
                bin_ops!(op, s, k, overflowing_shl, overflowing_shr, checked_shl, checked_shr, wrapping_shl, wrapping_shr,
                    unbounded_shl, unbounded_shr, rotate_left, rotate_right, strict_shl, strict_shr);
                bin_ops_mode!(op, a, s, k, shl, shr);
                extra!(IT, op, a);
            }
            None
        }
        let _ = _assert_traits::<UT>;
        let _ = _assert_traits::<IT>;
        Some(run as fn(bool, &str, &[&str]) -> Option<String>)
    }};
}

fn main() {
    serve(|op, cfg, args| {
        let (signed, c) = split_cfg(cfg);
        let f: Option<fn(bool, &str, &[&str]) -> Option<String>> = for_config!(c, imp);
        f.and_then(|f| f(signed, op, args))
    });
}
