//! C05: shifts and rotations.
use bnum_verif_harness::*;

macro_rules! imp {
    ($U:ident, $I:ident, $D:ty, $N:literal) => {{
        type UT = bnum::$U<$N>;
        type IT = bnum::$I<$N>;
        fn run(signed: bool, op: &str, a: &[&str]) -> Option<String> {
            let u = |i: usize| UT::from_hex(a[i]);
            let s = |i: usize| IT::from_hex(a[i]);
            let k = |i: usize| parse_u32(a[i]);
            if !signed {
                bin_ops!(op, u, k, overflowing_shl, overflowing_shr, checked_shl, checked_shr, wrapping_shl, wrapping_shr,
                    unbounded_shl, unbounded_shr, rotate_left, rotate_right, strict_shl, strict_shr);
                bin_ops_mode!(op, a, u, k, shl, shr);
            } else {
                bin_ops!(op, s, k, overflowing_shl, overflowing_shr, checked_shl, checked_shr, wrapping_shl, wrapping_shr,
                    unbounded_shl, unbounded_shr, rotate_left, rotate_right, strict_shl, strict_shr);
                bin_ops_mode!(op, a, s, k, shl, shr);
            }
            None
        }
        Some(run as fn(bool, &str, &[&str]) -> Option<String>)
    }};
}

fn main() {
    serve(|op, cfg, args| {
        let (signed, c) = split_cfg(cfg);
        let f: Option<fn(bool, &str, &[&str]) -> Option<String>> = for_config!(c, imp);
        f.and_then(|f| f(signed, op, args))
    });
}
