//! C15: byte-slice decoding and endianness helpers (`*_bytes` need `--features nightly`).
use bnum_verif_harness::*;

macro_rules! ops {
    ($T:ty, $op:expr, $a:expr) => {{
        let a: &[&str] = $a;
        match $op {
            "from_be_slice" => Some(<$T>::from_be_slice(&parse_bytes(a[0])).out()),
            "from_le_slice" => Some(<$T>::from_le_slice(&parse_bytes(a[0])).out()),
            "to_be" => Some(<$T>::from_hex(a[0]).to_be().out()),
            "to_le" => Some(<$T>::from_hex(a[0]).to_le().out()),
            "from_be" => Some(<$T>::from_be(<$T>::from_hex(a[0])).out()),
            "from_le" => Some(<$T>::from_le(<$T>::from_hex(a[0])).out()),
            _ => ops_nightly!($T, $op, a),
        }
    }};
}
#[cfg(feature = "nightly")]
macro_rules! ops_nightly {
    ($T:ty, $op:expr, $a:expr) => {{
        let a: &[&str] = $a;
        const BY: usize = <$T>::BYTES as usize;
        let arr = |s: &str| -> [u8; BY] { let v = parse_bytes(s); let mut x = [0u8; BY]; x.copy_from_slice(&v); x };
        match $op {
            "to_be_bytes" => Some(show_bytes(&<$T>::from_hex(a[0]).to_be_bytes())),
            "to_le_bytes" => Some(show_bytes(&<$T>::from_hex(a[0]).to_le_bytes())),
            "to_ne_bytes" => Some(show_bytes(&<$T>::from_hex(a[0]).to_ne_bytes())),
            "from_be_bytes" => Some(<$T>::from_be_bytes(arr(a[0])).out()),
            "from_le_bytes" => Some(<$T>::from_le_bytes(arr(a[0])).out()),
            "from_ne_bytes" => Some(<$T>::from_ne_bytes(arr(a[0])).out()),
            _ => None,
        }
    }};
}
#[cfg(not(feature = "nightly"))]
macro_rules! ops_nightly {
    ($T:ty, $op:expr, $a:expr) => {{
        match $op {
            "to_be_bytes" | "to_le_bytes" | "to_ne_bytes" | "from_be_bytes" | "from_le_bytes" | "from_ne_bytes" => Some("skip".into()),
            _ => None,
        }
    }};
}

macro_rules! imp {
    ($U:ident, $I:ident, $D:ty, $N:literal) => {{
        fn run(signed: bool, op: &str, a: &[&str]) -> Option<String> {
            if signed { ops!(bnum::$I<$N>, op, a) } else { ops!(bnum::$U<$N>, op, a) }
        }
        Some(run as fn(bool, &str, &[&str]) -> Option<String>)
    }};
}

fn main() {
    serve(|op, cfg, args| {
        let (signed, c) = split_cfg(cfg);
        let f: Option<fn(bool, &str, &[&str]) -> Option<String>> = for_config!(c, imp);
        f.and_then(|f| f(signed, op, args))
    });
}
