//! C15: byte-slice decoding and endianness helpers (`*_bytes` need `--features nightly`).
//!
//! Every op `X` also exists as `X@be`: the same method, but the request asks for the behaviour on a
//! BIG-endian target.  A binary answers only the requests of its own `cfg(target_endian)` and `skip`s the
//! others, so the usual x86_64 builds skip `X@be`; `gen/c15.py:post` runs this same binary under Miri for
//! `s390x-unknown-linux-gnu`, where the `#[cfg(target_endian = "big")]` arms of `endian.rs` are compiled.
use bnum_verif_harness::*;

// Answer printing by table lookup instead of `format!` (same text as `Out::out` / `show_bytes` of the
// library): the big-endian run of this binary is interpreted by Miri, where `format!` per byte is slow.
const HEX: &[u8; 16] = b"0123456789abcdef";
/// every byte as two hex digits (`-` = empty)
fn hex_bytes(b: &[u8]) -> String {
    if b.is_empty() {
        return "-".into();
    }
    let mut s = String::with_capacity(2 * b.len());
    for &x in b {
        s.push(HEX[(x >> 4) as usize] as char);
        s.push(HEX[(x & 15) as usize] as char);
    }
    s
}
/// canonical pattern text: hex of the value, no leading zeros (`0` for zero)
fn hex_val<T: Pat>(x: &T) -> String {
    let mut be = x.pat_to_le();
    be.reverse();
    let s = hex_bytes(&be);
    let t = s.trim_start_matches(|c| c == '0' || c == '-');
    if t.is_empty() { "0".into() } else { t.to_string() }
}
fn hex_opt<T: Pat>(x: Option<T>) -> String {
    match x {
        Some(v) => { let mut s = String::from("S("); s.push_str(&hex_val(&v)); s.push(')'); s }
        None => "N".into(),
    }
}

macro_rules! ops {
    ($T:ty, $op:expr, $a:expr) => {{
        let a: &[&str] = $a;
        match $op {
            "from_be_slice" => Some(hex_opt(<$T>::from_be_slice(&parse_bytes(a[0])))),
            "from_le_slice" => Some(hex_opt(<$T>::from_le_slice(&parse_bytes(a[0])))),
            "to_be" => Some(hex_val(&<$T>::from_hex(a[0]).to_be())),
            "to_le" => Some(hex_val(&<$T>::from_hex(a[0]).to_le())),
            "from_be" => Some(hex_val(&<$T>::from_be(<$T>::from_hex(a[0])))),
            "from_le" => Some(hex_val(&<$T>::from_le(<$T>::from_hex(a[0])))),
            _ => ops_nightly!($T, $op, a),
        }
    }};
}
#[cfg(feature = "nightly")]
macro_rules! ops_nightly {
    ($T:ty, $op:expr, $a:expr) => {{
        let a: &[&str] = $a;
        const BY: usize = <$T>::BYTES as usize;
        let arr = |s: &str| -> [u8; BY] { let v = parse_bytes(s); let mut x = [0u8; BY]; x.copy_from_slice(&v); x };
        match $op {
            "to_be_bytes" => Some(hex_bytes(&<$T>::from_hex(a[0]).to_be_bytes())),
            "to_le_bytes" => Some(hex_bytes(&<$T>::from_hex(a[0]).to_le_bytes())),
            "to_ne_bytes" => Some(hex_bytes(&<$T>::from_hex(a[0]).to_ne_bytes())),
            "from_be_bytes" => Some(hex_val(&<$T>::from_be_bytes(arr(a[0])))),
            "from_le_bytes" => Some(hex_val(&<$T>::from_le_bytes(arr(a[0])))),
            "from_ne_bytes" => Some(hex_val(&<$T>::from_ne_bytes(arr(a[0])))),
            _ => None,
        }
    }};
}
#[cfg(not(feature = "nightly"))]
macro_rules! ops_nightly {
    ($T:ty, $op:expr, $a:expr) => {{
        match $op {
            "to_be_bytes" | "to_le_bytes" | "to_ne_bytes" | "from_be_bytes" | "from_le_bytes" | "from_ne_bytes" => Some("skip".into()),
            _ => None,
        }
    }};
}

macro_rules! imp {
    ($U:ident, $I:ident, $D:ty, $N:literal) => {{
        fn run(signed: bool, op: &str, a: &[&str]) -> Option<String> {
            if signed { ops!(bnum::$I<$N>, op, a) } else { ops!(bnum::$U<$N>, op, a) }
        }
        Some(run as fn(bool, &str, &[&str]) -> Option<String>)
    }};
}

const OPS: [&str; 12] = ["from_be_slice", "from_le_slice", "to_be", "to_le", "from_be", "from_le", "to_be_bytes",
    "to_le_bytes", "to_ne_bytes", "from_be_bytes", "from_le_bytes", "from_ne_bytes"];

fn main() {
    serve(|op, cfg, args| {
        let (op, want_big) = match op.strip_suffix("@be") { Some(o) => (o, true), None => (op, false) };
        if !OPS.contains(&op) { return None; }
        if want_big != cfg!(target_endian = "big") { return Some("skip".into()); }
        let (signed, c) = split_cfg(cfg);
        let f: Option<fn(bool, &str, &[&str]) -> Option<String>> = for_config!(c, imp);
        f.and_then(|f| f(signed, op, args))
    });
}
