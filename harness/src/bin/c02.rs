//! C02: multiplication.
use bnum_verif_harness::*;

macro_rules! imp {
    ($U:ident, $I:ident, $D:ty, $N:literal) => {{
        type UT = bnum::$U<$N>;
        type IT = bnum::$I<$N>;
        fn run(signed: bool, op: &str, a: &[&str]) -> Option<String> {
            let u = |i: usize| UT::from_hex(a[i]);
            let s = |i: usize| IT::from_hex(a[i]);
            if !signed {
                bin_ops!(op, u, u, overflowing_mul, checked_mul, wrapping_mul, saturating_mul, strict_mul, widening_mul);
                bin_ops_mode!(op, a, u, u, mul);
                if op == "carrying_mul" { return Some(u(0).carrying_mul(u(1), u(2)).out()); }
            } else {
                bin_ops!(op, s, s, overflowing_mul, checked_mul, wrapping_mul, saturating_mul, strict_mul);
                bin_ops_mode!(op, a, s, s, mul);
            }
            None
        }
        Some(run as fn(bool, &str, &[&str]) -> Option<String>)
    }};
}

fn main() {
    serve(|op, cfg, args| {
        let (signed, c) = split_cfg(cfg);
        let f: Option<fn(bool, &str, &[&str]) -> Option<String>> = for_config!(c, imp);
        f.and_then(|f| f(signed, op, args))
    });
}
