//! C02: multiplication.
//!   overflowing_mul / checked_mul / wrapping_mul / saturating_mul / strict_mul  cfg a b
//!   mul cfg dbg|rel a b            the inherent `mul`
//!   mulop cfg dbg|rel form a b     the operators: vv `a * b`, vr `a * &b`, rv `&a * b`, rr `&a * &b`,
//!                                  as `a *= b`, asr `a *= &b`
//!   widening_mul cfg a b, carrying_mul cfg a b c            (unsigned)
//!   mul_words cfg b c a0,a1,…      (unsigned) `(lo_i, carry) = a_i.carrying_mul(b, carry)` chained
//! Besides the standard configurations (`for_config!`) this bin instantiates further digit counts of
//! every digit type (`for_config_extra!`; gen/c02.py EXTRA_CFGS must list the same ones).
use bnum_verif_harness::*;
use core::ops::{Mul, MulAssign};

macro_rules! forms {
    ($T:ty, $form:expr, $x:expr, $y:expr) => {{
        let x: $T = $x;
        let y: $T = $y;
        match $form {
            "vv" => Some(<$T as Mul<$T>>::mul(x, y).out()),
            "vr" => Some(<$T as Mul<&$T>>::mul(x, &y).out()),
            "rv" => Some(<&$T as Mul<$T>>::mul(&x, y).out()),
            "rr" => Some(<&$T as Mul<&$T>>::mul(&x, &y).out()),
            "as" => { let mut z = x; <$T as MulAssign<$T>>::mul_assign(&mut z, y); Some(z.out()) }
            "asr" => { let mut z = x; <$T as MulAssign<&$T>>::mul_assign(&mut z, &y); Some(z.out()) }
            _ => None,
        }
    }};
}

/// `level`: `full` = every entry point including the operator forms, `std` = every named method,
/// `lean` = the methods with a body of their own (`long_mul`, the signed re-signing, saturation side,
/// `mul`, `widening_mul`, `carrying_mul`).  Every call site instantiates (and inlines) a whole
/// multiplication, so the levels keep the build time of this bin in check.
macro_rules! body {
    ($level:ident, $U:ident, $I:ident, $N:literal) => {{
        type UT = bnum::$U<$N>;
        type IT = bnum::$I<$N>;
        fn run(signed: bool, op: &str, a: &[&str]) -> Option<String> {
            let u = |i: usize| UT::from_hex(a[i]);
            let s = |i: usize| IT::from_hex(a[i]);
            if !signed {
                bin_ops!(op, u, u, overflowing_mul, widening_mul);
                bin_ops_mode!(op, a, u, u, mul);
                if op == "carrying_mul" { return Some(u(0).carrying_mul(u(1), u(2)).out()); }
                if op == "mul_words" {
                    let b = u(0);
                    let mut carry = u(1);
                    let mut out: Vec<UT> = vec![];
                    if a[2] != "-" {
                        for t in a[2].split(',') {
                            let (lo, hi) = UT::from_hex(t).carrying_mul(b, carry);
                            out.push(lo);
                            carry = hi;
                        }
                    }
                    return Some((out, carry).out());
                }
                body!(@$level unsigned u, UT, op, a);
            } else {
                bin_ops!(op, s, s, overflowing_mul, saturating_mul);
                bin_ops_mode!(op, a, s, s, mul);
                body!(@$level signed s, IT, op, a);
            }
            None
        }
        Some(run as fn(bool, &str, &[&str]) -> Option<String>)
    }};
    (@lean $k:ident $x:ident, $T:ty, $op:ident, $a:ident) => {};
    (@std unsigned $x:ident, $T:ty, $op:ident, $a:ident) => {
        bin_ops!($op, $x, $x, checked_mul, wrapping_mul, saturating_mul, strict_mul);
    };
    (@std signed $x:ident, $T:ty, $op:ident, $a:ident) => {
        bin_ops!($op, $x, $x, checked_mul, wrapping_mul, strict_mul);
    };
    (@full $k:ident $x:ident, $T:ty, $op:ident, $a:ident) => {
        body!(@std $k $x, $T, $op, $a);
        if $op == "mulop" {
            if !mode_ok($a[0]) { return Some("skip".into()); }
            return forms!($T, $a[1], $x(2), $x(3));
        }
    };
}

/// standard configurations: operator forms on the digit counts 1, 3, 17, 1024 (gen/c02.py FORM_NS)
macro_rules! imp {
    ($U:ident, $I:ident, $D:ty, 1) => { body!(full, $U, $I, 1) };
    ($U:ident, $I:ident, $D:ty, 3) => { body!(full, $U, $I, 3) };
    ($U:ident, $I:ident, $D:ty, 17) => { body!(full, $U, $I, 17) };
    ($U:ident, $I:ident, $D:ty, 1024) => { body!(full, $U, $I, 1024) };
    ($U:ident, $I:ident, $D:ty, $N:literal) => { body!(std, $U, $I, $N) };
}
macro_rules! imp_lean {
    ($U:ident, $I:ident, $D:ty, $N:literal) => { body!(lean, $U, $I, $N) };
}

/// digit counts beyond the shared list: around powers of two, odd / prime counts, and the widest
/// neighbours of the 8192-bit limit, for every digit type
macro_rules! for_config_extra {
    ($cfg:expr, $m:ident) => {
        match $cfg {
            "8x6" => $m!(BUintD8, BIntD8, u8, 6),
            "8x10" => $m!(BUintD8, BIntD8, u8, 10),
            "8x11" => $m!(BUintD8, BIntD8, u8, 11),
            "8x13" => $m!(BUintD8, BIntD8, u8, 13),
            "8x15" => $m!(BUintD8, BIntD8, u8, 15),
            "8x31" => $m!(BUintD8, BIntD8, u8, 31),
            "8x32" => $m!(BUintD8, BIntD8, u8, 32),
            "8x33" => $m!(BUintD8, BIntD8, u8, 33),
            "8x65" => $m!(BUintD8, BIntD8, u8, 65),
            "8x129" => $m!(BUintD8, BIntD8, u8, 129),
            "8x1023" => $m!(BUintD8, BIntD8, u8, 1023),
            "16x6" => $m!(BUintD16, BIntD16, u16, 6),
            "16x7" => $m!(BUintD16, BIntD16, u16, 7),
            "16x8" => $m!(BUintD16, BIntD16, u16, 8),
            "16x15" => $m!(BUintD16, BIntD16, u16, 15),
            "16x17" => $m!(BUintD16, BIntD16, u16, 17),
            "16x33" => $m!(BUintD16, BIntD16, u16, 33),
            "16x255" => $m!(BUintD16, BIntD16, u16, 255),
            "32x5" => $m!(BUintD32, BIntD32, u32, 5),
            "32x7" => $m!(BUintD32, BIntD32, u32, 7),
            "32x8" => $m!(BUintD32, BIntD32, u32, 8),
            "32x9" => $m!(BUintD32, BIntD32, u32, 9),
            "32x15" => $m!(BUintD32, BIntD32, u32, 15),
            "32x17" => $m!(BUintD32, BIntD32, u32, 17),
            "32x33" => $m!(BUintD32, BIntD32, u32, 33),
            "32x127" => $m!(BUintD32, BIntD32, u32, 127),
            "64x6" => $m!(BUint, BInt, u64, 6),
            "64x7" => $m!(BUint, BInt, u64, 7),
            "64x10" => $m!(BUint, BInt, u64, 10),
            "64x11" => $m!(BUint, BInt, u64, 11),
            "64x13" => $m!(BUint, BInt, u64, 13),
            "64x15" => $m!(BUint, BInt, u64, 15),
            "64x17" => $m!(BUint, BInt, u64, 17),
            "64x31" => $m!(BUint, BInt, u64, 31),
            "64x33" => $m!(BUint, BInt, u64, 33),
            "64x127" => $m!(BUint, BInt, u64, 127),
            _ => None,
        }
    };
}

fn main() {
    serve(|op, cfg, args| {
        let (signed, c) = split_cfg(cfg);
        let f: Option<fn(bool, &str, &[&str]) -> Option<String>> = for_config!(c, imp);
        let f: Option<fn(bool, &str, &[&str]) -> Option<String>> = match f {
            Some(f) => Some(f),
            None => for_config_extra!(c, imp_lean),
        };
        f.and_then(|f| f(signed, op, args))
    });
}
