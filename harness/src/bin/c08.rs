//! C08: powers and integer logarithms.
use bnum_verif_harness::*;

macro_rules! ops {
    ($T:ty, $op:expr, $a:expr) => {{
        let a: &[&str] = $a;
        let v = |i: usize| <$T>::from_hex(a[i]);
        let e = |i: usize| parse_u32(a[i]);
        match $op {
            "overflowing_pow" => Some(v(0).overflowing_pow(e(1)).out()),
            "checked_pow" => Some(v(0).checked_pow(e(1)).out()),
            "wrapping_pow" => Some(v(0).wrapping_pow(e(1)).out()),
            "saturating_pow" => Some(v(0).saturating_pow(e(1)).out()),
            "strict_pow" => Some(v(0).strict_pow(e(1)).out()),
            "pow" => { if !mode_ok(a[0]) { return Some("skip".into()); } Some(v(1).pow(e(2)).out()) }
            "checked_ilog" => Some(v(0).checked_ilog(v(1)).map(Dec).out()),
            "checked_ilog2" => Some(v(0).checked_ilog2().map(Dec).out()),
            "checked_ilog10" => Some(v(0).checked_ilog10().map(Dec).out()),
            "ilog" => { if !mode_ok(a[0]) { return Some("skip".into()); } Some(Dec(v(1).ilog(v(2))).out()) }
            "ilog2" => { if !mode_ok(a[0]) { return Some("skip".into()); } Some(Dec(v(1).ilog2()).out()) }
            "ilog10" => { if !mode_ok(a[0]) { return Some("skip".into()); } Some(Dec(v(1).ilog10()).out()) }
            _ => None,
        }
    }};
}

macro_rules! imp {
    ($U:ident, $I:ident, $D:ty, $N:literal) => {{
        fn run(signed: bool, op: &str, a: &[&str]) -> Option<String> {
            if signed { ops!(bnum::$I<$N>, op, a) } else { ops!(bnum::$U<$N>, op, a) }
        }
        Some(run as fn(bool, &str, &[&str]) -> Option<String>)
    }};
}

fn main() {
    serve(|op, cfg, args| {
        let (signed, c) = split_cfg(cfg);
        let f: Option<fn(bool, &str, &[&str]) -> Option<String>> = for_config!(c, imp);
        f.and_then(|f| f(signed, op, args))
    });
}
