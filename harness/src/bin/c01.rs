//! C01: add / sub / neg / abs family.
use bnum_verif_harness::*;

macro_rules! imp {
    ($U:ident, $I:ident, $D:ty, $N:literal) => {{
        type UT = bnum::$U<$N>;
        type IT = bnum::$I<$N>;
        fn run(signed: bool, op: &str, a: &[&str]) -> Option<String> {
            let u = |i: usize| UT::from_hex(a[i]);
            let s = |i: usize| IT::from_hex(a[i]);
            let b = |i: usize| parse_bool(a[i]);
            Some(if !signed {
                match op {
                    "overflowing_add" => u(0).overflowing_add(u(1)).out(),
                    "overflowing_sub" => u(0).overflowing_sub(u(1)).out(),
                    "overflowing_neg" => u(0).overflowing_neg().out(),
                    "overflowing_add_signed" => u(0).overflowing_add_signed(s(1)).out(),
                    "checked_add" => u(0).checked_add(u(1)).out(),
                    "checked_sub" => u(0).checked_sub(u(1)).out(),
                    "checked_neg" => u(0).checked_neg().out(),
                    "checked_add_signed" => u(0).checked_add_signed(s(1)).out(),
                    "wrapping_add" => u(0).wrapping_add(u(1)).out(),
                    "wrapping_sub" => u(0).wrapping_sub(u(1)).out(),
                    "wrapping_neg" => u(0).wrapping_neg().out(),
                    "wrapping_add_signed" => u(0).wrapping_add_signed(s(1)).out(),
                    "saturating_add" => u(0).saturating_add(u(1)).out(),
                    "saturating_sub" => u(0).saturating_sub(u(1)).out(),
                    "saturating_add_signed" => u(0).saturating_add_signed(s(1)).out(),
                    "carrying_add" => u(0).carrying_add(u(1), b(2)).out(),
                    "borrowing_sub" => u(0).borrowing_sub(u(1), b(2)).out(),
                    "strict_add" => u(0).strict_add(u(1)).out(),
                    "strict_sub" => u(0).strict_sub(u(1)).out(),
                    "strict_add_signed" => u(0).strict_add_signed(s(1)).out(),
                    "strict_neg" => u(0).strict_neg().out(),
                    "abs_diff" => u(0).abs_diff(u(1)).out(),
                    "midpoint" => { if !mode_ok(a[0]) { return Some("skip".into()); } u(1).midpoint(u(2)).out() }
                    _ => return None,
                }
            } else {
                match op {
                    "overflowing_add" => s(0).overflowing_add(s(1)).out(),
                    "overflowing_sub" => s(0).overflowing_sub(s(1)).out(),
                    "overflowing_neg" => s(0).overflowing_neg().out(),
                    "overflowing_abs" => s(0).overflowing_abs().out(),
                    "overflowing_add_unsigned" => s(0).overflowing_add_unsigned(u(1)).out(),
                    "overflowing_sub_unsigned" => s(0).overflowing_sub_unsigned(u(1)).out(),
                    "checked_add" => s(0).checked_add(s(1)).out(),
                    "checked_sub" => s(0).checked_sub(s(1)).out(),
                    "checked_neg" => s(0).checked_neg().out(),
                    "checked_abs" => s(0).checked_abs().out(),
                    "checked_add_unsigned" => s(0).checked_add_unsigned(u(1)).out(),
                    "checked_sub_unsigned" => s(0).checked_sub_unsigned(u(1)).out(),
                    "wrapping_add" => s(0).wrapping_add(s(1)).out(),
                    "wrapping_sub" => s(0).wrapping_sub(s(1)).out(),
                    "wrapping_neg" => s(0).wrapping_neg().out(),
                    "wrapping_abs" => s(0).wrapping_abs().out(),
                    "wrapping_add_unsigned" => s(0).wrapping_add_unsigned(u(1)).out(),
                    "wrapping_sub_unsigned" => s(0).wrapping_sub_unsigned(u(1)).out(),
                    "saturating_add" => s(0).saturating_add(s(1)).out(),
                    "saturating_sub" => s(0).saturating_sub(s(1)).out(),
                    "saturating_neg" => s(0).saturating_neg().out(),
                    "saturating_abs" => s(0).saturating_abs().out(),
                    "saturating_add_unsigned" => s(0).saturating_add_unsigned(u(1)).out(),
                    "saturating_sub_unsigned" => s(0).saturating_sub_unsigned(u(1)).out(),
                    "unsigned_abs" => s(0).unsigned_abs().out(),
                    "abs" => { if !mode_ok(a[0]) { return Some("skip".into()); } s(1).abs().out() }
                    "carrying_add" => s(0).carrying_add(s(1), b(2)).out(),
                    "borrowing_sub" => s(0).borrowing_sub(s(1), b(2)).out(),
                    "strict_add" => s(0).strict_add(s(1)).out(),
                    "strict_sub" => s(0).strict_sub(s(1)).out(),
                    "strict_neg" => s(0).strict_neg().out(),
                    "strict_abs" => s(0).strict_abs().out(),
                    "strict_add_unsigned" => s(0).strict_add_unsigned(u(1)).out(),
                    "strict_sub_unsigned" => s(0).strict_sub_unsigned(u(1)).out(),
                    "abs_diff" => s(0).abs_diff(s(1)).out(),
                    "midpoint" => { if !mode_ok(a[0]) { return Some("skip".into()); } s(1).midpoint(s(2)).out() }
                    _ => return None,
                }
            })
        }
        Some(run as fn(bool, &str, &[&str]) -> Option<String>)
    }};
}

fn main() {
    serve(|op, cfg, args| {
        let (signed, c) = split_cfg(cfg);
        let f: Option<fn(bool, &str, &[&str]) -> Option<String>> = for_config!(c, imp);
        f.and_then(|f| f(signed, op, args))
    });
}
