//! C01: add / sub / neg / abs family.
use bnum_verif_harness::*;

macro_rules! imp {
    ($U:ident, $I:ident, $D:ty, $N:literal) => {{
        type UT = bnum::$U<$N>;
        type IT = bnum::$I<$N>;
        fn run(signed: bool, op: &str, a: &[&str]) -> Option<String> {
            let u = |i: usize| UT::from_hex(a[i]);
            let s = |i: usize| IT::from_hex(a[i]);
            let b = |i: usize| parse_bool(a[i]);
            Some(if !signed {
                match op {
                    "overflowing_add" => u(0).overflowing_add(u(1)).out(),
                    "overflowing_sub" => u(0).overflowing_sub(u(1)).out(),
                    "overflowing_neg" => u(0).overflowing_neg().out(),
                    "overflowing_add_signed" => u(0).overflowing_add_signed(s(1)).out(),
                    "checked_add" => u(0).checked_add(u(1)).out(),
                    "checked_sub" => u(0).checked_sub(u(1)).out(),
                    "checked_neg" => u(0).checked_neg().out(),
                    "checked_add_signed" => u(0).checked_add_signed(s(1)).out(),
                    "wrapping_add" => u(0).wrapping_add(u(1)).out(),
                    "wrapping_sub" => u(0).wrapping_sub(u(1)).out(),
                    "wrapping_neg" => u(0).wrapping_neg().out(),
                    "wrapping_add_signed" => u(0).wrapping_add_signed(s(1)).out(),
                    "saturating_add" => u(0).saturating_add(u(1)).out(),
                    "saturating_sub" => u(0).saturating_sub(u(1)).out(),
                    "saturating_add_signed" => u(0).saturating_add_signed(s(1)).out(),
                    "carrying_add" => u(0).carrying_add(u(1), b(2)).out(),
                    "borrowing_sub" => u(0).borrowing_sub(u(1), b(2)).out(),
                    "strict_add" => u(0).strict_add(u(1)).out(),
                    "strict_sub" => u(0).strict_sub(u(1)).out(),
                    "strict_add_signed" => u(0).strict_add_signed(s(1)).out(),
                    "strict_neg" => u(0).strict_neg().out(),
                    "abs_diff" => u(0).abs_diff(u(1)).out(),
                    "midpoint" => { if !mode_ok(a[0]) { return Some("skip".into()); } u(1).midpoint(u(2)).out() }
                    _ => return None,
                }
            } else {
                match op {
                    "overflowing_add" => s(0).overflowing_add(s(1)).out(),
                    "overflowing_sub" => s(0).overflowing_sub(s(1)).out(),
                    "overflowing_neg" => s(0).overflowing_neg().out(),
                    "overflowing_abs" => s(0).overflowing_abs().out(),
                    "overflowing_add_unsigned" => s(0).overflowing_add_unsigned(u(1)).out(),
                    "overflowing_sub_unsigned" => s(0).overflowing_sub_unsigned(u(1)).out(),
                    "checked_add" => s(0).checked_add(s(1)).out(),
                    "checked_sub" => s(0).checked_sub(s(1)).out(),
                    "checked_neg" => s(0).checked_neg().out(),
                    "checked_abs" => s(0).checked_abs().out(),
                    "checked_add_unsigned" => s(0).checked_add_unsigned(u(1)).out(),
                    "checked_sub_unsigned" => s(0).checked_sub_unsigned(u(1)).out(),
                    "wrapping_add" => s(0).wrapping_add(s(1)).out(),
                    "wrapping_sub" => s(0).wrapping_sub(s(1)).out(),
                    "wrapping_neg" => s(0).wrapping_neg().out(),
                    "wrapping_abs" => s(0).wrapping_abs().out(),
                    "wrapping_add_unsigned" => s(0).wrapping_add_unsigned(u(1)).out(),
                    "wrapping_sub_unsigned" => s(0).wrapping_sub_unsigned(u(1)).out(),
                    "saturating_add" => s(0).saturating_add(s(1)).out(),
                    "saturating_sub" => s(0).saturating_sub(s(1)).out(),
                    "saturating_neg" => s(0).saturating_neg().out(),
                    "saturating_abs" => s(0).saturating_abs().out(),
                    "saturating_add_unsigned" => s(0).saturating_add_unsigned(u(1)).out(),
                    "saturating_sub_unsigned" => s(0).saturating_sub_unsigned(u(1)).out(),
                    "unsigned_abs" => s(0).unsigned_abs().out(),
                    "abs" => { if !mode_ok(a[0]) { return Some("skip".into()); } s(1).abs().out() }
                    "carrying_add" => s(0).carrying_add(s(1), b(2)).out(),
                    "borrowing_sub" => s(0).borrowing_sub(s(1), b(2)).out(),
                    "strict_add" => s(0).strict_add(s(1)).out(),
                    "strict_sub" => s(0).strict_sub(s(1)).out(),
                    "strict_neg" => s(0).strict_neg().out(),
                    "strict_abs" => s(0).strict_abs().out(),
                    "strict_add_unsigned" => s(0).strict_add_unsigned(u(1)).out(),
                    "strict_sub_unsigned" => s(0).strict_sub_unsigned(u(1)).out(),
                    "abs_diff" => s(0).abs_diff(s(1)).out(),
                    "midpoint" => { if !mode_ok(a[0]) { return Some("skip".into()); } s(1).midpoint(s(2)).out() }
                    _ => return None,
                }
            })
        }
        Some(run as fn(bool, &str, &[&str]) -> Option<String>)
    }};
}

type Run = fn(bool, &str, &[&str]) -> Option<String>;

/// Digit counts that the shared `for_config!` list does not instantiate (C01 only): every residue of N modulo
/// 4 and 8 for every digit type, and the digit counts just below / at / just above 16, 32, 64 and 128
/// (loop unrolling tails, block-wise carry look-ahead, mask widths are keyed to such N).
fn extra_config(c: &str) -> Option<Run> {
    match c {
        "8x6" => imp!(BUintD8, BIntD8, u8, 6),
        "8x10" => imp!(BUintD8, BIntD8, u8, 10),
        "8x11" => imp!(BUintD8, BIntD8, u8, 11),
        "8x13" => imp!(BUintD8, BIntD8, u8, 13),
        "8x14" => imp!(BUintD8, BIntD8, u8, 14),
        "8x15" => imp!(BUintD8, BIntD8, u8, 15),
        "8x31" => imp!(BUintD8, BIntD8, u8, 31),
        "8x32" => imp!(BUintD8, BIntD8, u8, 32),
        "8x33" => imp!(BUintD8, BIntD8, u8, 33),
        "8x63" => imp!(BUintD8, BIntD8, u8, 63),
        "8x65" => imp!(BUintD8, BIntD8, u8, 65),
        "8x127" => imp!(BUintD8, BIntD8, u8, 127),
        "8x129" => imp!(BUintD8, BIntD8, u8, 129),
        "16x6" => imp!(BUintD16, BIntD16, u16, 6),
        "16x7" => imp!(BUintD16, BIntD16, u16, 7),
        "16x8" => imp!(BUintD16, BIntD16, u16, 8),
        "16x32" => imp!(BUintD16, BIntD16, u16, 32),
        "32x5" => imp!(BUintD32, BIntD32, u32, 5),
        "32x7" => imp!(BUintD32, BIntD32, u32, 7),
        "32x8" => imp!(BUintD32, BIntD32, u32, 8),
        "32x32" => imp!(BUintD32, BIntD32, u32, 32),
        "64x6" => imp!(BUint, BInt, u64, 6),
        "64x7" => imp!(BUint, BInt, u64, 7),
        "64x32" => imp!(BUint, BInt, u64, 32),
        "64x33" => imp!(BUint, BInt, u64, 33),
        _ => None,
    }
}

fn main() {
    serve(|op, cfg, args| {
        let (signed, c) = split_cfg(cfg);
        let f: Option<Run> = match extra_config(c) {
            Some(f) => Some(f),
            None => for_config!(c, imp),
        };
        f.and_then(|f| f(signed, op, args))
    });
}
