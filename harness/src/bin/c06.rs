//! C06: bitwise logic, counts, bit manipulation.
use bnum_verif_harness::*;

macro_rules! cnt { ($op:expr, $x:ident, $($name:ident),*) => { match $op { $( stringify!($name) => return Some(Dec($x(0).$name()).out()), )* _ => {} } } }

/// and/or/xor through the inherent const method AND every operator form (value/reference operands, op-assign
/// with a value and with a reference); `not` likewise.  A disagreement between the forms is answered as such.
macro_rules! bit_forms {
    ($op:expr, $x:ident, $(($name:ident, $tr:tt, $asg:tt)),*) => {
        match $op { $( stringify!($name) => {
            let (a, b) = ($x(0), $x(1));
            let r0 = a.$name(b).out();
            let mut rs = vec![(a $tr b).out(), (&a $tr b).out(), (a $tr &b).out(), (&a $tr &b).out()];
            let mut c = a; c $asg b; rs.push(c.out());
            let mut c = a; c $asg &b; rs.push(c.out());
            for (i, r) in rs.iter().enumerate() { if *r != r0 { return Some(format!("form{}-differs:{}", i, r)); } }
            return Some(r0)
        }, )* _ => {} }
    };
}
macro_rules! not_forms {
    ($op:expr, $x:ident) => {
        if $op == "not" {
            let a = $x(0);
            let r0 = a.not().out();
            let rs = [(!a).out(), (!&a).out()];
            for (i, r) in rs.iter().enumerate() { if *r != r0 { return Some(format!("form{}-differs:{}", i, r)); } }
            return Some(r0);
        }
    };
}

macro_rules! imp {
    ($U:ident, $I:ident, $D:ty, $N:literal) => {{
        type UT = bnum::$U<$N>;
        type IT = bnum::$I<$N>;
        fn run(signed: bool, op: &str, a: &[&str]) -> Option<String> {
            let u = |i: usize| UT::from_hex(a[i]);
            let s = |i: usize| IT::from_hex(a[i]);
            let k = |i: usize| parse_u32(a[i]);
            if !signed {
                bit_forms!(op, u, (bitand, &, &=), (bitor, |, |=), (bitxor, ^, ^=));
                not_forms!(op, u);
                un_ops!(op, u, swap_bytes, reverse_bits, is_power_of_two, checked_next_power_of_two,
                    wrapping_next_power_of_two, is_zero, is_one);
                un_ops_mode!(op, a, u, next_power_of_two);
                cnt!(op, u, count_ones, count_zeros, leading_zeros, trailing_zeros, leading_ones, trailing_ones, bits);
                match op {
                    "bit" => return Some(u(0).bit(k(1)).out()),
                    "set_bit" => { let mut x = u(0); x.set_bit(k(1), parse_bool(a[2])); return Some(x.out()) }
                    "power_of_two" => return Some(UT::power_of_two(k(0)).out()),
                    _ => {}
                }
            } else {
                bit_forms!(op, s, (bitand, &, &=), (bitor, |, |=), (bitxor, ^, ^=));
                not_forms!(op, s);
                un_ops!(op, s, swap_bytes, reverse_bits, is_power_of_two, is_zero, is_one);
                cnt!(op, s, count_ones, count_zeros, leading_zeros, trailing_zeros, leading_ones, trailing_ones, bits);
                match op {
                    "bit" => return Some(s(0).bit(k(1)).out()),
                    _ => {}
                }
            }
            None
        }
        Some(run as fn(bool, &str, &[&str]) -> Option<String>)
    }};
}

fn main() {
    serve(|op, cfg, args| {
        let (signed, c) = split_cfg(cfg);
        let f: Option<fn(bool, &str, &[&str]) -> Option<String>> = for_config!(c, imp);
        f.and_then(|f| f(signed, op, args))
    });
}
