//! C06: bitwise logic, counts, bit manipulation.
use bnum_verif_harness::*;

macro_rules! cnt { ($op:expr, $x:ident, $($name:ident),*) => { match $op { $( stringify!($name) => return Some(Dec($x(0).$name()).out()), )* _ => {} } } }

/// and/or/xor through the inherent const method AND every operator form (value/reference operands, op-assign
/// with a value and with a reference); `not` likewise.  A disagreement between the forms is answered as such.
macro_rules! bit_forms {
    ($op:expr, $x:ident, $(($name:ident, $tr:tt, $asg:tt)),*) => {
        match $op { $( stringify!($name) => {
            let (a, b) = ($x(0), $x(1));
            let r0 = a.$name(b).out();
            let mut rs = vec![(a $tr b).out(), (&a $tr b).out(), (a $tr &b).out(), (&a $tr &b).out()];
            let mut c = a; c $asg b; rs.push(c.out());
            let mut c = a; c $asg &b; rs.push(c.out());
            for (i, r) in rs.iter().enumerate() { if *r != r0 { return Some(format!("form{}-differs:{}", i, r)); } }
            return Some(r0)
        }, )* _ => {} }
    };
}
macro_rules! not_forms {
    ($op:expr, $x:ident) => {
        if $op == "not" {
            let a = $x(0);
            let r0 = a.not().out();
            let rs = [(!a).out(), (!&a).out()];
            for (i, r) in rs.iter().enumerate() { if *r != r0 { return Some(format!("form{}-differs:{}", i, r)); } }
            return Some(r0);
        }
    };
}

/// answer of the `*_scan` requests: `-` when no index failed, else `bad:` + the first 8 failing indices
fn show_bad(bad: &[u32]) -> String {
    if bad.is_empty() { "-".into() } else { format!("bad:{}", bad.iter().take(8).map(|i| i.to_string()).collect::<Vec<_>>().join(",")) }
}

/// `bit_scan`: every `bit(i)`, `i < BITS`, reassembled into the pattern (bytes built here, not by the crate)
macro_rules! bit_scan {
    ($x:expr, $bits:expr) => {{
        let x = $x;
        let mut bytes = vec![0u8; ($bits as usize) / 8];
        for i in 0..$bits { if x.bit(i) { bytes[(i / 8) as usize] |= 1 << (i % 8); } }
        le_bytes_to_hex(&bytes)
    }};
}

macro_rules! imp {
    ($U:ident, $I:ident, $D:ty, $N:literal) => {{
        type UT = bnum::$U<$N>;
        type IT = bnum::$I<$N>;
        fn run(signed: bool, op: &str, a: &[&str]) -> Option<String> {
            let u = |i: usize| UT::from_hex(a[i]);
            let s = |i: usize| IT::from_hex(a[i]);
            let k = |i: usize| parse_u32(a[i]);
            const DW: u32 = <$D>::BITS;
            if !signed {
                match op {
                    "bit_scan" => return Some(bit_scan!(u(0), UT::BITS)),
                    // every index: set_bit(i, v) must replace bit i of digit i / DW and leave every other digit alone
                    "set_bit_scan" => {
                        let (x, v) = (u(0), parse_bool(a[1]));
                        let d0 = *x.digits();
                        let mut bad = vec![];
                        for i in 0..UT::BITS {
                            let mut y = x;
                            y.set_bit(i, v);
                            let mut e = d0;
                            let (j, t) = ((i / DW) as usize, i % DW);
                            e[j] = if v { e[j] | ((1 as $D) << t) } else { e[j] & !((1 as $D) << t) };
                            if *y.digits() != e { bad.push(i); }
                        }
                        return Some(show_bad(&bad));
                    }
                    // every exponent: power_of_two(k) must be the digit array of 2^k
                    "power_of_two_scan" => {
                        let mut bad = vec![];
                        for i in 0..UT::BITS {
                            let y = UT::power_of_two(i);
                            let mut e = [0 as $D; $N];
                            e[(i / DW) as usize] = (1 as $D) << (i % DW);
                            if *y.digits() != e { bad.push(i); }
                        }
                        return Some(show_bad(&bad));
                    }
                    _ => {}
                }
                bit_forms!(op, u, (bitand, &, &=), (bitor, |, |=), (bitxor, ^, ^=));
                not_forms!(op, u);
                un_ops!(op, u, swap_bytes, reverse_bits, is_power_of_two, checked_next_power_of_two,
                    wrapping_next_power_of_two, is_zero, is_one);
                un_ops_mode!(op, a, u, next_power_of_two);
                cnt!(op, u, count_ones, count_zeros, leading_zeros, trailing_zeros, leading_ones, trailing_ones, bits);
                match op {
                    "bit" => return Some(u(0).bit(k(1)).out()),
                    "set_bit" => { let mut x = u(0); x.set_bit(k(1), parse_bool(a[2])); return Some(x.out()) }
                    "power_of_two" => return Some(UT::power_of_two(k(0)).out()),
                    _ => {}
                }
            } else {
                bit_forms!(op, s, (bitand, &, &=), (bitor, |, |=), (bitxor, ^, ^=));
                not_forms!(op, s);
                un_ops!(op, s, swap_bytes, reverse_bits, is_power_of_two, is_zero, is_one);
                cnt!(op, s, count_ones, count_zeros, leading_zeros, trailing_zeros, leading_ones, trailing_ones, bits);
                match op {
                    "bit" => return Some(s(0).bit(k(1)).out()),
                    "bit_scan" => return Some(bit_scan!(s(0), IT::BITS)),
                    _ => {}
                }
            }
            None
        }
        Some(run as fn(bool, &str, &[&str]) -> Option<String>)
    }};
}

fn main() {
    serve(|op, cfg, args| {
        let (signed, c) = split_cfg(cfg);
        let f: Option<fn(bool, &str, &[&str]) -> Option<String>> = for_config!(c, imp);
        f.and_then(|f| f(signed, op, args))
    });
}
