//! C17: std trait implementations vs inherent methods. Every request carries `dbg|rel` as first
//! argument (operators panic on overflow only with debug assertions).
//!
//! `<op>_<form> cfg mode a b`    op ∈ add sub mul div rem bitand bitor bitxor
//!     form: vv `a op b` | vr `a op &b` | rv `&a op b` | rr `&a op &b` | as `a op= b` | asr `a op= &b`
//!           | inh  inherent const twin `a.op(b)`
//! `neg_v|neg_r|neg_inh|not_v|not_r|not_inh cfg mode a`
//! `shl_<ty>_<form> cfg mode a k`, `shr_…`   ty ∈ u8 … isize (k decimal, may be negative), form as above
//!     (no `inh`; `shl_u32_inh` is the inherent `shl(ExpType)`)
//! `shl_bu_<form> cfg mode a k`, `shl_bi_…`, `shr_bu_…`, `shr_bi_…`  amount of type BUint<N>/BInt<N> (k hex pattern)
//! `shl_bu<M>_<form> cfg mode a k`, `shl_bi<M>_…`, `shr_…`  amount of type BUint<M>/BInt<M> over the same digit type with
//!     M ≠ N digits (`impl<const N, const M> Shl<BUint<M>> for BUint<N>`): M ∈ {1, 2, N+1}; k = hex pattern of M digits
//! `sum|sum_ref|product|product_ref cfg mode a1,a2,…` (`-` = empty iterator)
//! `default cfg mode`, `add_digit|div_digit|rem_digit cfg mode a d` (unsigned; d hex digit)
//! `cmp_* cfg mode a b`: partial_cmp, ord_cmp, lt, le, gt, ge, eq, ne through the operator traits; `*_inh` twins
//! `ord_max|ord_min cfg mode a b`, `ord_clamp cfg mode a mn mx`: the `Ord` methods bnum overrides (`{buint,bint}/cmp.rs`);
//!     `max_inh|min_inh|clamp_inh`: the inherent const twins they forward to
use bnum_verif_harness::*;
use core::ops::*;

macro_rules! forms {
    ($op:expr, $a:expr, $T:ty, $name:literal, $tr:ident, $m:ident, $atr:ident, $am:ident, $inh:expr) => {{
        let a: &[&str] = $a;
        if let Some(form) = $op.strip_prefix(concat!($name, "_")) {
            if !mode_ok(a[0]) { return Some("skip".into()); }
            let x = <$T>::from_hex(a[1]);
            let y = <$T>::from_hex(a[2]);
            return Some(match form {
                "vv" => <$T as $tr<$T>>::$m(x, y).out(),
                "vr" => <$T as $tr<&$T>>::$m(x, &y).out(),
                "rv" => <&$T as $tr<$T>>::$m(&x, y).out(),
                "rr" => <&$T as $tr<&$T>>::$m(&x, &y).out(),
                "as" => { let mut z = x; <$T as $atr<$T>>::$am(&mut z, y); z.out() }
                "asr" => { let mut z = x; <$T as $atr<&$T>>::$am(&mut z, &y); z.out() }
                "inh" => { let f: fn($T, $T) -> $T = $inh; f(x, y).out() }
                _ => return None,
            });
        }
    }};
}
macro_rules! shift_forms {
    ($op:expr, $a:expr, $T:ty, $($ty:ident),*) => {{
        let a: &[&str] = $a;
        $(
        if let Some(rest) = $op.strip_prefix(concat!("shl_", stringify!($ty), "_")) {
            if !mode_ok(a[0]) { return Some("skip".into()); }
            let x = <$T>::from_hex(a[1]);
            let k: $ty = a[2].parse().expect("amount");
            return Some(match rest {
                "vv" => <$T as Shl<$ty>>::shl(x, k).out(),
                "vr" => <$T as Shl<&$ty>>::shl(x, &k).out(),
                "rv" => <&$T as Shl<$ty>>::shl(&x, k).out(),
                "rr" => <&$T as Shl<&$ty>>::shl(&x, &k).out(),
                "as" => { let mut z = x; <$T as ShlAssign<$ty>>::shl_assign(&mut z, k); z.out() }
                "asr" => { let mut z = x; <$T as ShlAssign<&$ty>>::shl_assign(&mut z, &k); z.out() }
                _ => return None,
            });
        }
        if let Some(rest) = $op.strip_prefix(concat!("shr_", stringify!($ty), "_")) {
            if !mode_ok(a[0]) { return Some("skip".into()); }
            let x = <$T>::from_hex(a[1]);
            let k: $ty = a[2].parse().expect("amount");
            return Some(match rest {
                "vv" => <$T as Shr<$ty>>::shr(x, k).out(),
                "vr" => <$T as Shr<&$ty>>::shr(x, &k).out(),
                "rv" => <&$T as Shr<$ty>>::shr(&x, k).out(),
                "rr" => <&$T as Shr<&$ty>>::shr(&x, &k).out(),
                "as" => { let mut z = x; <$T as ShrAssign<$ty>>::shr_assign(&mut z, k); z.out() }
                "asr" => { let mut z = x; <$T as ShrAssign<&$ty>>::shr_assign(&mut z, &k); z.out() }
                _ => return None,
            });
        }
        )*
    }};
}
macro_rules! bshift_forms {
    ($op:expr, $a:expr, $T:ty, $name:literal, $K:ty) => {{
        let a: &[&str] = $a;
        if let Some(rest) = $op.strip_prefix(concat!("shl_", $name, "_")) {
            if !mode_ok(a[0]) { return Some("skip".into()); }
            let x = <$T>::from_hex(a[1]);
            let k = <$K>::from_hex(a[2]);
            return Some(match rest {
                "vv" => <$T as Shl<$K>>::shl(x, k).out(),
                "vr" => <$T as Shl<&$K>>::shl(x, &k).out(),
                "rv" => <&$T as Shl<$K>>::shl(&x, k).out(),
                "rr" => <&$T as Shl<&$K>>::shl(&x, &k).out(),
                "as" => { let mut z = x; <$T as ShlAssign<$K>>::shl_assign(&mut z, k); z.out() }
                "asr" => { let mut z = x; <$T as ShlAssign<&$K>>::shl_assign(&mut z, &k); z.out() }
                _ => return None,
            });
        }
        if let Some(rest) = $op.strip_prefix(concat!("shr_", $name, "_")) {
            if !mode_ok(a[0]) { return Some("skip".into()); }
            let x = <$T>::from_hex(a[1]);
            let k = <$K>::from_hex(a[2]);
            return Some(match rest {
                "vv" => <$T as Shr<$K>>::shr(x, k).out(),
                "vr" => <$T as Shr<&$K>>::shr(x, &k).out(),
                "rv" => <&$T as Shr<$K>>::shr(&x, k).out(),
                "rr" => <&$T as Shr<&$K>>::shr(&x, &k).out(),
                "as" => { let mut z = x; <$T as ShrAssign<$K>>::shr_assign(&mut z, k); z.out() }
                "asr" => { let mut z = x; <$T as ShrAssign<&$K>>::shr_assign(&mut z, &k); z.out() }
                _ => return None,
            });
        }
    }};
}

/// `shl_bu3_vv` → (left, amount is BInt, Some(3), "vv"); `shr_bi_asr` → (false, true, None, "asr")
fn parse_bshift(op: &str) -> Option<(bool, bool, Option<usize>, &str)> {
    let mut it = op.splitn(3, '_');
    let (dir, ty, form) = (it.next()?, it.next()?, it.next()?);
    let left = match dir { "shl" => true, "shr" => false, _ => return None };
    let (ks, m) = if let Some(m) = ty.strip_prefix("bu") { (false, m) } else if let Some(m) = ty.strip_prefix("bi") { (true, m) } else { return None };
    if m.is_empty() { return None; }   // M = N is handled by `bshift_forms!`
    Some((left, ks, Some(m.parse().ok()?), form))
}
macro_rules! bshift_run {
    ($left:expr, $form:expr, $a:expr, $T:ty, $K:ty) => {{
        let x = <$T>::from_hex($a[1]);
        let k = <$K>::from_hex($a[2]);
        match ($left, $form) {
            (true, "vv") => Some(<$T as Shl<$K>>::shl(x, k).out()),
            (true, "vr") => Some(<$T as Shl<&$K>>::shl(x, &k).out()),
            (true, "rv") => Some(<&$T as Shl<$K>>::shl(&x, k).out()),
            (true, "rr") => Some(<&$T as Shl<&$K>>::shl(&x, &k).out()),
            (true, "as") => { let mut z = x; <$T as ShlAssign<$K>>::shl_assign(&mut z, k); Some(z.out()) }
            (true, "asr") => { let mut z = x; <$T as ShlAssign<&$K>>::shl_assign(&mut z, &k); Some(z.out()) }
            (false, "vv") => Some(<$T as Shr<$K>>::shr(x, k).out()),
            (false, "vr") => Some(<$T as Shr<&$K>>::shr(x, &k).out()),
            (false, "rv") => Some(<&$T as Shr<$K>>::shr(&x, k).out()),
            (false, "rr") => Some(<&$T as Shr<&$K>>::shr(&x, &k).out()),
            (false, "as") => { let mut z = x; <$T as ShrAssign<$K>>::shr_assign(&mut z, k); Some(z.out()) }
            (false, "asr") => { let mut z = x; <$T as ShrAssign<&$K>>::shr_assign(&mut z, &k); Some(z.out()) }
            _ => None,
        }
    }};
}
/// amounts of type `BUint<M>` / `BInt<M>` with M ≠ N
macro_rules! bshift_m {
    ($op:expr, $a:expr, $T:ty, $U:ident, $I:ident, $N:literal) => {{
        if let Some((left, ks, Some(m), form)) = parse_bshift($op) {
            let a: &[&str] = $a;
            if !mode_ok(a[0]) { return Some("skip".into()); }
            const NP1: usize = $N + 1;
            #[allow(unreachable_patterns)]
            return match (ks, m) {
                (false, 1) => bshift_run!(left, form, a, $T, bnum::$U<1>),
                (true, 1) => bshift_run!(left, form, a, $T, bnum::$I<1>),
                (false, 2) => bshift_run!(left, form, a, $T, bnum::$U<2>),
                (true, 2) => bshift_run!(left, form, a, $T, bnum::$I<2>),
                (false, NP1) => bshift_run!(left, form, a, $T, bnum::$U<{ $N + 1 }>),
                (true, NP1) => bshift_run!(left, form, a, $T, bnum::$I<{ $N + 1 }>),
                _ => None,
            };
        }
    }};
}

macro_rules! common {
    ($op:expr, $a:expr, $T:ty, $UT:ty, $IT:ty, $U:ident, $I:ident, $N:literal) => {{
        let op: &str = $op;
        let a: &[&str] = $a;
        match op {
            "shl_u32_inh" => { if !mode_ok(a[0]) { return Some("skip".into()); } return Some(<$T>::shl(<$T>::from_hex(a[1]), a[2].parse().unwrap()).out()) }
            "shr_u32_inh" => { if !mode_ok(a[0]) { return Some("skip".into()); } return Some(<$T>::shr(<$T>::from_hex(a[1]), a[2].parse().unwrap()).out()) }
            _ => {}
        }
        forms!(op, a, $T, "add", Add, add, AddAssign, add_assign, <$T>::add);
        forms!(op, a, $T, "sub", Sub, sub, SubAssign, sub_assign, <$T>::sub);
        forms!(op, a, $T, "mul", Mul, mul, MulAssign, mul_assign, <$T>::mul);
        forms!(op, a, $T, "div", Div, div, DivAssign, div_assign, <$T>::div);
        forms!(op, a, $T, "rem", Rem, rem, RemAssign, rem_assign, <$T>::rem);
        forms!(op, a, $T, "bitand", BitAnd, bitand, BitAndAssign, bitand_assign, <$T>::bitand);
        forms!(op, a, $T, "bitor", BitOr, bitor, BitOrAssign, bitor_assign, <$T>::bitor);
        forms!(op, a, $T, "bitxor", BitXor, bitxor, BitXorAssign, bitxor_assign, <$T>::bitxor);
        shift_forms!(op, a, $T, u8, u16, u32, u64, u128, usize, i8, i16, i32, i64, i128, isize);
        bshift_forms!(op, a, $T, "bu", $UT);
        bshift_forms!(op, a, $T, "bi", $IT);
        bshift_m!(op, a, $T, $U, $I, $N);
        if op != "from_str" && !a.is_empty() && !mode_ok(a[0]) { return Some("skip".into()); }
        let list = |s: &str| -> Vec<$T> { if s == "-" { vec![] } else { s.split(',').map(|t| <$T>::from_hex(t)).collect() } };
        match op {
            "from_str" => {
                let b = parse_bytes(a[0]);
                return Some(match std::str::from_utf8(&b) {
                    Ok(st) => match <$T as core::str::FromStr>::from_str(st) { Ok(x) => format!("Ok({})", x.to_hex()), Err(e) => format!("Err({:?})", e.kind()) },
                    Err(_) => "bad-utf8".into(),
                })
            }
            "not_v" => return Some(<$T as Not>::not(<$T>::from_hex(a[1])).out()),
            "not_r" => return Some(<&$T as Not>::not(&<$T>::from_hex(a[1])).out()),
            "not_inh" => return Some(<$T>::not(<$T>::from_hex(a[1])).out()),
            "sum" => return Some(list(a[1]).into_iter().sum::<$T>().out()),
            "sum_ref" => return Some(list(a[1]).iter().sum::<$T>().out()),
            "product" => return Some(list(a[1]).into_iter().product::<$T>().out()),
            "product_ref" => return Some(list(a[1]).iter().product::<$T>().out()),
            "default" => return Some(<$T as Default>::default().out()),
            "cmp_partial_cmp" => return Some(PartialOrd::partial_cmp(&<$T>::from_hex(a[1]), &<$T>::from_hex(a[2])).out()),
            "cmp_ord_cmp" => return Some(Ord::cmp(&<$T>::from_hex(a[1]), &<$T>::from_hex(a[2])).out()),
            "cmp_cmp_inh" => return Some(<$T>::cmp(&<$T>::from_hex(a[1]), &<$T>::from_hex(a[2])).out()),
            "cmp_eq" => return Some((<$T>::from_hex(a[1]) == <$T>::from_hex(a[2])).out()),
            "cmp_eq_inh" => return Some(<$T>::eq(&<$T>::from_hex(a[1]), &<$T>::from_hex(a[2])).out()),
            "cmp_ne" => return Some((<$T>::from_hex(a[1]) != <$T>::from_hex(a[2])).out()),
            "cmp_lt" => return Some((<$T>::from_hex(a[1]) < <$T>::from_hex(a[2])).out()),
            "cmp_le" => return Some((<$T>::from_hex(a[1]) <= <$T>::from_hex(a[2])).out()),
            "cmp_gt" => return Some((<$T>::from_hex(a[1]) > <$T>::from_hex(a[2])).out()),
            "cmp_ge" => return Some((<$T>::from_hex(a[1]) >= <$T>::from_hex(a[2])).out()),
            "ord_max" => return Some(<$T as Ord>::max(<$T>::from_hex(a[1]), <$T>::from_hex(a[2])).out()),
            "ord_min" => return Some(<$T as Ord>::min(<$T>::from_hex(a[1]), <$T>::from_hex(a[2])).out()),
            "ord_clamp" => return Some(<$T as Ord>::clamp(<$T>::from_hex(a[1]), <$T>::from_hex(a[2]), <$T>::from_hex(a[3])).out()),
            "max_inh" => { let f: fn($T, $T) -> $T = <$T>::max; return Some(f(<$T>::from_hex(a[1]), <$T>::from_hex(a[2])).out()) }
            "min_inh" => { let f: fn($T, $T) -> $T = <$T>::min; return Some(f(<$T>::from_hex(a[1]), <$T>::from_hex(a[2])).out()) }
            "clamp_inh" => { let f: fn($T, $T, $T) -> $T = <$T>::clamp; return Some(f(<$T>::from_hex(a[1]), <$T>::from_hex(a[2]), <$T>::from_hex(a[3])).out()) }
            _ => {}
        }
    }};
}

macro_rules! imp {
    ($U:ident, $I:ident, $D:ty, $N:literal) => {{
        type UT = bnum::$U<$N>;
        type IT = bnum::$I<$N>;
        fn run_u(op: &str, a: &[&str]) -> Option<String> {
            let d = |s: &str| <$D>::from_str_radix(s, 16).expect("digit");
            match op {
                "add_digit" | "div_digit" | "rem_digit" if !mode_ok(a[0]) => return Some("skip".into()),
                "add_digit" => return Some(<UT as Add<$D>>::add(UT::from_hex(a[1]), d(a[2])).out()),
                "div_digit" => return Some(<UT as Div<$D>>::div(UT::from_hex(a[1]), d(a[2])).out()),
                "rem_digit" => return Some(format!("{:x}", <UT as Rem<$D>>::rem(UT::from_hex(a[1]), d(a[2])))),
                _ => {}
            }
            common!(op, a, UT, UT, IT, $U, $I, $N);
            None
        }
        fn run_i(op: &str, a: &[&str]) -> Option<String> {
            common!(op, a, IT, UT, IT, $U, $I, $N);
            match op {
                "neg_v" => Some(<IT as Neg>::neg(IT::from_hex(a[1])).out()),
                "neg_r" => Some(<&IT as Neg>::neg(&IT::from_hex(a[1])).out()),
                "neg_inh" => Some(IT::neg(IT::from_hex(a[1])).out()),
                _ => None,
            }
        }
        fn run(signed: bool, op: &str, a: &[&str]) -> Option<String> { if signed { run_i(op, a) } else { run_u(op, a) } }
        Some(run as fn(bool, &str, &[&str]) -> Option<String>)
    }};
}

// a reduced configuration list keeps this (large) binary's compile time down
macro_rules! for_config17 {
    ($cfg:expr, $m:ident) => {
        match $cfg {
            "8x1" => $m!(BUintD8, BIntD8, u8, 1),
            "8x2" => $m!(BUintD8, BIntD8, u8, 2),
            "8x3" => $m!(BUintD8, BIntD8, u8, 3),
            "8x4" => $m!(BUintD8, BIntD8, u8, 4),
            "8x5" => $m!(BUintD8, BIntD8, u8, 5),
            "8x6" => $m!(BUintD8, BIntD8, u8, 6),
            "8x7" => $m!(BUintD8, BIntD8, u8, 7),
            "8x8" => $m!(BUintD8, BIntD8, u8, 8),
            "8x17" => $m!(BUintD8, BIntD8, u8, 17),
            "8x64" => $m!(BUintD8, BIntD8, u8, 64),
            "16x1" => $m!(BUintD16, BIntD16, u16, 1),
            "16x3" => $m!(BUintD16, BIntD16, u16, 3),
            "16x4" => $m!(BUintD16, BIntD16, u16, 4),
            "32x2" => $m!(BUintD32, BIntD32, u32, 2),
            "32x3" => $m!(BUintD32, BIntD32, u32, 3),
            "64x1" => $m!(BUint, BInt, u64, 1),
            "64x2" => $m!(BUint, BInt, u64, 2),
            "64x3" => $m!(BUint, BInt, u64, 3),
            "64x16" => $m!(BUint, BInt, u64, 16),
            // the widest in-scope instantiation of every digit type (8192 bits)
            "8x1024" => $m!(BUintD8, BIntD8, u8, 1024),
            "16x512" => $m!(BUintD16, BIntD16, u16, 512),
            "32x256" => $m!(BUintD32, BIntD32, u32, 256),
            "64x128" => $m!(BUint, BInt, u64, 128),
            _ => None,
        }
    };
}

fn main() {
    serve(|op, cfg, args| {
        let (signed, c) = split_cfg(cfg);
        let f: Option<fn(bool, &str, &[&str]) -> Option<String>> = for_config17!(c, imp);
        f.and_then(|f| f(signed, op, args))
    });
}
