//! C04: panic behaviour per build mode, on the configurations of `for_config!` (8 … 8192 bits) that the
//! c17 bin — which owns the operator vocabulary — does not instantiate (`for_config04!` below = the list
//! of `for_config!` minus the 15 of `for_config17!`; gen/c04.py routes by configuration).  Every request carries
//! `dbg|rel` as its first argument; the build that is not meant answers `skip`, so that the Lean driver
//! evaluates the `cfg(debug_assertions)` variant of the model that belongs to the answering build.
//!
//! Operators (same op names as harness/src/bin/c17.rs, answered by Drive/C17.lean):
//!   `<op>_<form> cfg mode a b`   op ∈ add sub mul div rem
//!       form: vv `a op b` | vr `a op &b` | rv `&a op b` | rr `&a op &b` | as `a op= b` | asr `a op= &b`
//!             | inh  the inherent unsuffixed const twin `a.op(b)`
//!   `neg_v|neg_r|neg_inh cfg mode a`                      (signed only)
//!   `shl_<ty>_<form> cfg mode a k`, `shr_…`   ty ∈ u8 … isize (k decimal, may be negative),
//!       form: vv `a << k` | asr `a <<= &k` (which forwards to `<<=` and that to `<<`; the by-reference
//!       impls are forwarding macros without any dependence on the configuration: all six forms are
//!       exercised by the c17 bin)
//!   `shl_u32_inh|shr_u32_inh cfg mode a k`                the inherent `shl(ExpType)` / `shr(ExpType)`
//! Methods whose Rust body reaches `cfg(debug_assertions)`-dependent code although their result does not
//! depend on the build (answered by Drive/C03.lean, Drive/C04.lean, Drive/C08.lean, which take the
//! optional profile word):
//!   `div|rem|div_euclid|rem_euclid|strict_{div,rem,div_euclid,rem_euclid}|checked_{…}|wrapping_{…}
//!    |overflowing_{…}|saturating_div|checked_next_multiple_of cfg mode a b`
//!   `checked_ilog cfg mode a b`, `checked_ilog2|checked_ilog10 cfg mode a`
use bnum_verif_harness::*;
use core::ops::*;

macro_rules! forms {
    ($op:expr, $a:expr, $T:ty, $name:literal, $tr:ident, $m:ident, $atr:ident, $am:ident, $inh:expr) => {{
        let a: &[&str] = $a;
        if let Some(form) = $op.strip_prefix(concat!($name, "_")) {
            if !mode_ok(a[0]) { return Some("skip".into()); }
            let x = <$T>::from_hex(a[1]);
            let y = <$T>::from_hex(a[2]);
            return Some(match form {
                "vv" => <$T as $tr<$T>>::$m(x, y).out(),
                "vr" => <$T as $tr<&$T>>::$m(x, &y).out(),
                "rv" => <&$T as $tr<$T>>::$m(&x, y).out(),
                "rr" => <&$T as $tr<&$T>>::$m(&x, &y).out(),
                "as" => { let mut z = x; <$T as $atr<$T>>::$am(&mut z, y); z.out() }
                "asr" => { let mut z = x; <$T as $atr<&$T>>::$am(&mut z, &y); z.out() }
                "inh" => { let f: fn($T, $T) -> $T = $inh; f(x, y).out() }
                _ => return None,
            });
        }
    }};
}
macro_rules! shift_forms {
    ($op:expr, $a:expr, $T:ty, $($ty:ident),*) => {{
        let a: &[&str] = $a;
        $(
        if let Some(rest) = $op.strip_prefix(concat!("shl_", stringify!($ty), "_")) {
            if !mode_ok(a[0]) { return Some("skip".into()); }
            let x = <$T>::from_hex(a[1]);
            let k: $ty = a[2].parse().expect("amount");
            return Some(match rest {
                "vv" => <$T as Shl<$ty>>::shl(x, k).out(),
                "asr" => { let mut z = x; <$T as ShlAssign<&$ty>>::shl_assign(&mut z, &k); z.out() }
                _ => return None,
            });
        }
        if let Some(rest) = $op.strip_prefix(concat!("shr_", stringify!($ty), "_")) {
            if !mode_ok(a[0]) { return Some("skip".into()); }
            let x = <$T>::from_hex(a[1]);
            let k: $ty = a[2].parse().expect("amount");
            return Some(match rest {
                "vv" => <$T as Shr<$ty>>::shr(x, k).out(),
                "asr" => { let mut z = x; <$T as ShrAssign<&$ty>>::shr_assign(&mut z, &k); z.out() }
                _ => return None,
            });
        }
        )*
    }};
}

macro_rules! common {
    ($op:expr, $a:expr, $T:ty) => {{
        let op: &str = $op;
        let a: &[&str] = $a;
        let x = |i: usize| <$T>::from_hex(a[i]);
        bin_ops_mode!(op, a, x, x, div, rem, div_euclid, rem_euclid,
            strict_div, strict_rem, strict_div_euclid, strict_rem_euclid,
            checked_div, checked_rem, checked_div_euclid, checked_rem_euclid,
            wrapping_div, wrapping_rem, wrapping_div_euclid, wrapping_rem_euclid,
            overflowing_div, overflowing_rem, overflowing_div_euclid, overflowing_rem_euclid,
            saturating_div, checked_next_multiple_of);
        match op {
            "checked_ilog" => { if !mode_ok(a[0]) { return Some("skip".into()); } return Some(x(1).checked_ilog(x(2)).map(Dec).out()) }
            "checked_ilog2" => { if !mode_ok(a[0]) { return Some("skip".into()); } return Some(x(1).checked_ilog2().map(Dec).out()) }
            "checked_ilog10" => { if !mode_ok(a[0]) { return Some("skip".into()); } return Some(x(1).checked_ilog10().map(Dec).out()) }
            "shl_u32_inh" => { if !mode_ok(a[0]) { return Some("skip".into()); } return Some(<$T>::shl(x(1), a[2].parse().unwrap()).out()) }
            "shr_u32_inh" => { if !mode_ok(a[0]) { return Some("skip".into()); } return Some(<$T>::shr(x(1), a[2].parse().unwrap()).out()) }
            _ => {}
        }
        forms!(op, a, $T, "add", Add, add, AddAssign, add_assign, <$T>::add);
        forms!(op, a, $T, "sub", Sub, sub, SubAssign, sub_assign, <$T>::sub);
        forms!(op, a, $T, "mul", Mul, mul, MulAssign, mul_assign, <$T>::mul);
        forms!(op, a, $T, "div", Div, div, DivAssign, div_assign, <$T>::div);
        forms!(op, a, $T, "rem", Rem, rem, RemAssign, rem_assign, <$T>::rem);
        shift_forms!(op, a, $T, u8, u16, u32, u64, u128, usize, i8, i16, i32, i64, i128, isize);
    }};
}

macro_rules! imp {
    ($U:ident, $I:ident, $D:ty, $N:literal) => {{
        type UT = bnum::$U<$N>;
        type IT = bnum::$I<$N>;
        fn run_u(op: &str, a: &[&str]) -> Option<String> {
            common!(op, a, UT);
            None
        }
        fn run_i(op: &str, a: &[&str]) -> Option<String> {
            common!(op, a, IT);
            match op {
                "neg_v" | "neg_r" | "neg_inh" if !mode_ok(a[0]) => Some("skip".into()),
                "neg_v" => Some(<IT as Neg>::neg(IT::from_hex(a[1])).out()),
                "neg_r" => Some(<&IT as Neg>::neg(&IT::from_hex(a[1])).out()),
                "neg_inh" => Some(IT::neg(IT::from_hex(a[1])).out()),
                _ => None,
            }
        }
        fn run(signed: bool, op: &str, a: &[&str]) -> Option<String> { if signed { run_i(op, a) } else { run_u(op, a) } }
        Some(run as fn(bool, &str, &[&str]) -> Option<String>)
    }};
}

// every configuration of `for_config!` that `for_config17!` (harness/src/bin/c17.rs) does not have
macro_rules! for_config04 {
    ($cfg:expr, $m:ident) => {
        match $cfg {
            "8x4" => $m!(BUintD8, BIntD8, u8, 4),
            "8x7" => $m!(BUintD8, BIntD8, u8, 7),
            "8x8" => $m!(BUintD8, BIntD8, u8, 8),
            "8x9" => $m!(BUintD8, BIntD8, u8, 9),
            "8x12" => $m!(BUintD8, BIntD8, u8, 12),
            "8x16" => $m!(BUintD8, BIntD8, u8, 16),
            "8x24" => $m!(BUintD8, BIntD8, u8, 24),
            "8x40" => $m!(BUintD8, BIntD8, u8, 40),
            "8x1024" => $m!(BUintD8, BIntD8, u8, 1024),
            "16x2" => $m!(BUintD16, BIntD16, u16, 2),
            "16x5" => $m!(BUintD16, BIntD16, u16, 5),
            "16x9" => $m!(BUintD16, BIntD16, u16, 9),
            "16x12" => $m!(BUintD16, BIntD16, u16, 12),
            "16x20" => $m!(BUintD16, BIntD16, u16, 20),
            "16x512" => $m!(BUintD16, BIntD16, u16, 512),
            "32x1" => $m!(BUintD32, BIntD32, u32, 1),
            "32x4" => $m!(BUintD32, BIntD32, u32, 4),
            "32x6" => $m!(BUintD32, BIntD32, u32, 6),
            "32x10" => $m!(BUintD32, BIntD32, u32, 10),
            "32x12" => $m!(BUintD32, BIntD32, u32, 12),
            "32x256" => $m!(BUintD32, BIntD32, u32, 256),
            "64x4" => $m!(BUint, BInt, u64, 4),
            "64x5" => $m!(BUint, BInt, u64, 5),
            "64x8" => $m!(BUint, BInt, u64, 8),
            "64x9" => $m!(BUint, BInt, u64, 9),
            "64x12" => $m!(BUint, BInt, u64, 12),
            "64x64" => $m!(BUint, BInt, u64, 64),
            "64x128" => $m!(BUint, BInt, u64, 128),
            _ => None,
        }
    };
}

fn main() {
    serve(|op, cfg, args| {
        let (signed, c) = split_cfg(cfg);
        let f: Option<fn(bool, &str, &[&str]) -> Option<String>> = for_config04!(c, imp);
        f.and_then(|f| f(signed, op, args))
    });
}
