//! C11: radix printing (`to_str_radix`, `to_radix_be`, `to_radix_le`) and print-then-parse round trips through
//! EVERY parsing entry point of the crate (`from_str_radix`, `parse_str_radix`, `parse_bytes`, `FromStr`,
//! `from_radix_be`, `from_radix_le`), for all configurations of `for_config!` (8 … 8192 bits), signed and unsigned.
//!   to_str_radix / to_radix_be / to_radix_le  cfg radix a   → hex bytes / P
//!   roundtrip_str          cfg radix a  → from_str_radix(&a.to_str_radix(r), r)            Ok(hex)/Err(kind)/P
//!   roundtrip_parse_str    cfg radix a  → parse_str_radix(&a.to_str_radix(r), r)           hex/P
//!   roundtrip_parse_bytes  cfg radix a  → parse_bytes(a.to_str_radix(r).as_bytes(), r)     S(hex)/N/P
//!   roundtrip_from_str     cfg a        → <T as FromStr>::from_str(&a.to_str_radix(10))    Ok(hex)/Err(kind)
//!   roundtrip_be / _le     cfg radix a  → from_radix_be(&a.to_radix_be(r), r) (resp. le)   S(hex)/N/P
//!   roundtrip_be_le / roundtrip_le_be  cfg radix a → the digits printed in one order, reversed by the harness and
//!                                        parsed by the entry point of the OTHER order                 S(hex)/N/P
use bnum_verif_harness::*;
use core::num::IntErrorKind;
use core::str::FromStr;

fn kind(k: &IntErrorKind) -> &'static str {
    match k {
        IntErrorKind::Empty => "Empty",
        IntErrorKind::InvalidDigit => "InvalidDigit",
        IntErrorKind::PosOverflow => "PosOverflow",
        IntErrorKind::NegOverflow => "NegOverflow",
        IntErrorKind::Zero => "Zero",
        _ => "Other",
    }
}
fn pres<T: Pat>(r: Result<T, bnum::errors::ParseIntError>) -> String {
    match r { Ok(x) => format!("Ok({})", x.to_hex()), Err(e) => format!("Err({})", kind(e.kind())) }
}

macro_rules! ops {
    ($T:ty, $op:expr, $a:expr) => {{
        let a: &[&str] = $a;
        match $op {
            "to_str_radix" => Some(show_bytes(<$T>::from_hex(a[1]).to_str_radix(parse_u32(a[0])).as_bytes())),
            "to_radix_be" => Some(show_bytes(&<$T>::from_hex(a[1]).to_radix_be(parse_u32(a[0])))),
            "to_radix_le" => Some(show_bytes(&<$T>::from_hex(a[1]).to_radix_le(parse_u32(a[0])))),
            "roundtrip_str" => { let x = <$T>::from_hex(a[1]); let r = parse_u32(a[0]); Some(pres(<$T>::from_str_radix(&x.to_str_radix(r), r))) }
            "roundtrip_parse_str" => { let x = <$T>::from_hex(a[1]); let r = parse_u32(a[0]); Some(<$T>::parse_str_radix(&x.to_str_radix(r), r).to_hex()) }
            "roundtrip_parse_bytes" => { let x = <$T>::from_hex(a[1]); let r = parse_u32(a[0]); Some(<$T>::parse_bytes(x.to_str_radix(r).as_bytes(), r).out()) }
            "roundtrip_from_str" => { let x = <$T>::from_hex(a[0]); Some(pres(<$T as FromStr>::from_str(&x.to_str_radix(10)))) }
            "roundtrip_be" => { let x = <$T>::from_hex(a[1]); let r = parse_u32(a[0]); Some(<$T>::from_radix_be(&x.to_radix_be(r), r).out()) }
            "roundtrip_le" => { let x = <$T>::from_hex(a[1]); let r = parse_u32(a[0]); Some(<$T>::from_radix_le(&x.to_radix_le(r), r).out()) }
            "roundtrip_be_le" => { let x = <$T>::from_hex(a[1]); let r = parse_u32(a[0]); let mut d = x.to_radix_be(r); d.reverse(); Some(<$T>::from_radix_le(&d, r).out()) }
            "roundtrip_le_be" => { let x = <$T>::from_hex(a[1]); let r = parse_u32(a[0]); let mut d = x.to_radix_le(r); d.reverse(); Some(<$T>::from_radix_be(&d, r).out()) }
            _ => None,
        }
    }};
}

macro_rules! imp {
    ($U:ident, $I:ident, $D:ty, $N:literal) => {{
        fn run(signed: bool, op: &str, a: &[&str]) -> Option<String> {
            if signed { ops!(bnum::$I<$N>, op, a) } else { ops!(bnum::$U<$N>, op, a) }
        }
        Some(run as fn(bool, &str, &[&str]) -> Option<String>)
    }};
}

fn main() {
    serve(|op, cfg, args| {
        let (signed, c) = split_cfg(cfg);
        let f: Option<fn(bool, &str, &[&str]) -> Option<String>> = for_config!(c, imp);
        f.and_then(|f| f(signed, op, args))
    });
}
