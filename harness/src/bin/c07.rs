//! C07: comparison, equality, hashing, sign.
use bnum_verif_harness::*;
use std::hash::{Hash, Hasher};

/// FNV-1a: a fixed, deterministic `Hasher` (answers are compared only between equal values).
struct Fnv(u64);
impl Hasher for Fnv {
    fn finish(&self) -> u64 { self.0 }
    fn write(&mut self, bytes: &[u8]) { for b in bytes { self.0 ^= *b as u64; self.0 = self.0.wrapping_mul(0x100000001b3); } }
}
fn fnv<T: Hash>(x: &T) -> u64 { let mut h = Fnv(0xcbf29ce484222325); x.hash(&mut h); h.finish() }

            macro_rules! cmps { ($op:expr, $x:ident, $T:ty) => { match $op {
                // inherent const twins
                "eq" => return Some(<$T>::eq(&$x(0), &$x(1)).out()),
                "ne" => return Some(<$T>::ne(&$x(0), &$x(1)).out()),
                "cmp" => return Some(<$T>::cmp(&$x(0), &$x(1)).out()),
                "lt" => return Some(<$T>::lt(&$x(0), &$x(1)).out()),
                "le" => return Some(<$T>::le(&$x(0), &$x(1)).out()),
                "gt" => return Some(<$T>::gt(&$x(0), &$x(1)).out()),
                "ge" => return Some(<$T>::ge(&$x(0), &$x(1)).out()),
                "max" => return Some(<$T>::max($x(0), $x(1)).out()),
                "min" => return Some(<$T>::min($x(0), $x(1)).out()),
                "clamp" => return Some(<$T>::clamp($x(0), $x(1), $x(2)).out()),
                // trait forms
                "op_eq" => return Some(($x(0) == $x(1)).out()),
                "op_ne" => return Some(($x(0) != $x(1)).out()),
                "op_lt" => return Some(($x(0) < $x(1)).out()),
                "op_le" => return Some(($x(0) <= $x(1)).out()),
                "op_gt" => return Some(($x(0) > $x(1)).out()),
                "op_ge" => return Some(($x(0) >= $x(1)).out()),
                "ord_cmp" => return Some(Ord::cmp(&$x(0), &$x(1)).out()),
                "partial_cmp" => return Some(PartialOrd::partial_cmp(&$x(0), &$x(1)).out()),
                "ord_max" => return Some(Ord::max($x(0), $x(1)).out()),
                "ord_min" => return Some(Ord::min($x(0), $x(1)).out()),
                "ord_clamp" => return Some(Ord::clamp($x(0), $x(1), $x(2)).out()),
                // equal values hash equally: answer whether hashes agree
                "hash_eq" => return Some((fnv(&$x(0)) == fnv(&$x(1))).out()),
                _ => {}
            } } }

macro_rules! imp {
    ($U:ident, $I:ident, $D:ty, $N:literal) => {{
        type UT = bnum::$U<$N>;
        type IT = bnum::$I<$N>;
        fn run(signed: bool, op: &str, a: &[&str]) -> Option<String> {
            let u = |i: usize| UT::from_hex(a[i]);
            let s = |i: usize| IT::from_hex(a[i]);
            if !signed {
                cmps!(op, u, UT);
            } else {
                cmps!(op, s, IT);
                un_ops!(op, s, signum, is_positive, is_negative);
            }
            None
        }
        Some(run as fn(bool, &str, &[&str]) -> Option<String>)
    }};
}

fn main() {
    serve(|op, cfg, args| {
        let (signed, c) = split_cfg(cfg);
        let f: Option<fn(bool, &str, &[&str]) -> Option<String>> = for_config!(c, imp);
        f.and_then(|f| f(signed, op, args))
    });
}
