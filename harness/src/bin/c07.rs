//! C07: comparison, equality, hashing, sign.
use bnum_verif_harness::*;
use std::hash::{Hash, Hasher};

/// FNV-1a: a fixed, deterministic `Hasher` (answers are compared only between equal values).
struct Fnv(u64);
impl Hasher for Fnv {
    fn finish(&self) -> u64 { self.0 }
    fn write(&mut self, bytes: &[u8]) { for b in bytes { self.0 ^= *b as u64; self.0 = self.0.wrapping_mul(0x100000001b3); } }
}
fn fnv<T: Hash>(x: &T) -> u64 { let mut h = Fnv(0xcbf29ce484222325); x.hash(&mut h); h.finish() }
impl Default for Fnv { fn default() -> Self { Fnv(0xcbf29ce484222325) } }

/// A `Hasher` that records every byte it is fed (all `write_*` defaults forward to `write`).
struct Rec(Vec<u8>);
impl Hasher for Rec {
    fn finish(&self) -> u64 { 0 }
    fn write(&mut self, bytes: &[u8]) { self.0.extend_from_slice(bytes); }
}
fn stream<T: Hash>(x: &T) -> Vec<u8> { let mut h = Rec(Vec::new()); x.hash(&mut h); h.0 }

/// `x` and `y` were built by different routes; when they are the same value (decided on the digit
/// patterns, not by the crate's `==`) they must hash identically. `None` = route did not reproduce
/// the value (a defect of another property: not judged here).
fn same_hash<T: Hash + Pat>(x: &T, y: &T) -> Option<bool> {
    if x.to_hex() != y.to_hex() { return None; }
    Some(fnv(x) == fnv(y) && stream(x) == stream(y))
}

            macro_rules! cmps { ($op:expr, $x:ident, $T:ty, $dig:expr) => { match $op {
                // inherent const twins
                "eq" => return Some(<$T>::eq(&$x(0), &$x(1)).out()),
                "ne" => return Some(<$T>::ne(&$x(0), &$x(1)).out()),
                "cmp" => return Some(<$T>::cmp(&$x(0), &$x(1)).out()),
                "lt" => return Some(<$T>::lt(&$x(0), &$x(1)).out()),
                "le" => return Some(<$T>::le(&$x(0), &$x(1)).out()),
                "gt" => return Some(<$T>::gt(&$x(0), &$x(1)).out()),
                "ge" => return Some(<$T>::ge(&$x(0), &$x(1)).out()),
                "max" => return Some(<$T>::max($x(0), $x(1)).out()),
                "min" => return Some(<$T>::min($x(0), $x(1)).out()),
                "clamp" => return Some(<$T>::clamp($x(0), $x(1), $x(2)).out()),
                // trait forms
                "op_eq" => return Some(($x(0) == $x(1)).out()),
                "op_ne" => return Some(($x(0) != $x(1)).out()),
                "op_lt" => return Some(($x(0) < $x(1)).out()),
                "op_le" => return Some(($x(0) <= $x(1)).out()),
                "op_gt" => return Some(($x(0) > $x(1)).out()),
                "op_ge" => return Some(($x(0) >= $x(1)).out()),
                "ord_cmp" => return Some(Ord::cmp(&$x(0), &$x(1)).out()),
                "partial_cmp" => return Some(PartialOrd::partial_cmp(&$x(0), &$x(1)).out()),
                "ord_max" => return Some(Ord::max($x(0), $x(1)).out()),
                "ord_min" => return Some(Ord::min($x(0), $x(1)).out()),
                "ord_clamp" => return Some(Ord::clamp($x(0), $x(1), $x(2)).out()),
                // equal values hash equally: answer whether hashes agree
                "hash_eq" => return Some((fnv(&$x(0)) == fnv(&$x(1))).out()),
                // the same value reached by other construction routes hashes like the `from_digits` one
                "hash_routes" => {
                    let v = $x(0);
                    let one = <$T>::ONE;
                    let k = (<$T>::BITS / 3) as u32 + 1;
                    let routes: [$T; 9] = [
                        !(!v),
                        v.wrapping_add(one).wrapping_sub(one),
                        v.wrapping_sub(one).wrapping_add(one),
                        v.rotate_left(k).rotate_right(k),
                        v ^ <$T>::ZERO,
                        v.swap_bytes().swap_bytes(),
                        v.reverse_bits().reverse_bits(),
                        <$T>::from_hex(&v.to_hex()),
                        { let c = v; c.clone() },
                    ];
                    let mut ok = true;
                    for y in routes.iter() { if let Some(b) = same_hash(&v, y) { ok &= b; } }
                    return Some(ok.out());
                }
                // Hash/Eq coherence as its consumers see it: insert `a`, look up `b`
                "hash_set" => {
                    let mut s1: std::collections::HashSet<$T> = std::collections::HashSet::new();
                    s1.insert($x(0));
                    let mut s2: std::collections::HashSet<$T, std::hash::BuildHasherDefault<Fnv>> = Default::default();
                    s2.insert($x(0));
                    let (r1, r2) = (s1.contains(&$x(1)), s2.contains(&$x(1)));
                    return Some(if r1 == r2 { r1.out() } else { format!("std={} fnv={}", r1, r2) });
                }
                // does `hash` feed the hasher exactly what hashing the digit array feeds it?
                "hash_digits" => {
                    let v = $x(0);
                    return Some((stream(&v) == stream(&$dig(&v))).out());
                }
                _ => {}
            } } }

macro_rules! imp {
    ($U:ident, $I:ident, $D:ty, $N:literal) => {{
        type UT = bnum::$U<$N>;
        type IT = bnum::$I<$N>;
        fn run(signed: bool, op: &str, a: &[&str]) -> Option<String> {
            let u = |i: usize| UT::from_hex(a[i]);
            let s = |i: usize| IT::from_hex(a[i]);
            if !signed {
                cmps!(op, u, UT, |v: &UT| *v.digits());
            } else {
                cmps!(op, s, IT, |v: &IT| *v.to_bits().digits());
                un_ops!(op, s, signum, is_positive, is_negative);
            }
            None
        }
        Some(run as fn(bool, &str, &[&str]) -> Option<String>)
    }};
}

fn main() {
    serve(|op, cfg, args| {
        let (signed, c) = split_cfg(cfg);
        let f: Option<fn(bool, &str, &[&str]) -> Option<String>> = for_config!(c, imp);
        f.and_then(|f| f(signed, op, args))
    });
}
