//! C13: TryFrom / BTryFrom / From conversions, digit array access.
use bnum_verif_harness::*;
use bnum::BTryFrom;

fn res<T: Pat, E>(r: Result<T, E>) -> String {
    match r { Ok(x) => format!("Ok({})", x.to_hex()), Err(_) => "Err".into() }
}

// try <src> <dst> <hex>: dispatch on (dst kind/sign, src kind/sign)
macro_rules! inner {
    // bnum -> primitive : TryFrom
    (pr $ds:ident ($D:ty) bn $ss:ident ($S:ty) $x:ident) => { Some(res(<$D as TryFrom<$S>>::try_from(<$S as Pat>::from_hex($x)))) };
    // bnum -> bnum : BTryFrom
    (bn $ds:ident ($D:ty) bn $ss:ident ($S:ty) $x:ident) => { Some(res(<$D as BTryFrom<$S>>::try_from(<$S as Pat>::from_hex($x)))) };
    // unsigned primitive -> unsigned bnum : From ; signed primitive -> unsigned bnum : TryFrom
    (bn u ($D:ty) pr u ($S:ty) $x:ident) => { Some(format!("Ok({})", <$D as From<$S>>::from(<$S as Pat>::from_hex($x)).to_hex())) };
    (bn u ($D:ty) pr i ($S:ty) $x:ident) => { Some(res(<$D as TryFrom<$S>>::try_from(<$S as Pat>::from_hex($x)))) };
    // primitive -> signed bnum : From
    (bn i ($D:ty) pr $ss:ident ($S:ty) $x:ident) => { Some(format!("Ok({})", <$D as From<$S>>::from(<$S as Pat>::from_hex($x)).to_hex())) };
    (pr $ds:ident ($D:ty) pr $ss:ident ($S:ty) $x:ident) => { None };
}
macro_rules! by_dst {
    ($dk:ident $ds:ident ($D:ty) $src:ident $x:ident) => { for_type!($src, by_src!($dk $ds ($D) $x)) };
}
macro_rules! by_src {
    ($sk:ident $ss:ident ($S:ty) $dk:ident $ds:ident ($D:ty) $x:ident) => { inner!($dk $ds ($D) $sk $ss ($S) $x) };
}
macro_rules! from_bool {
    (bn $ds:ident ($D:ty) $x:ident) => { Some(format!("Ok({})", <$D as From<bool>>::from($x != "0").to_hex())) };
    (pr $ds:ident ($D:ty) $x:ident) => { None };
}
macro_rules! from_char {
    (bn u ($D:ty) $x:ident) => { Some(format!("Ok({})", <$D as From<char>>::from(char::from_u32(u32::from_str_radix($x, 16).unwrap()).expect("char")).to_hex())) };
    ($k:ident $ds:ident ($D:ty) $x:ident) => { None };
}

macro_rules! digits_imp {
    ($U:ident, $I:ident, $D:ty, $N:literal) => {{
        type UT = bnum::$U<$N>;
        fn run(signed: bool, op: &str, a: &[&str]) -> Option<String> {
            if signed { return None; }
            let parse_digits = |s: &str| -> [$D; $N] {
                let v: Vec<$D> = s.split(',').map(|t| <$D>::from_str_radix(t, 16).expect("digit")).collect();
                let mut d = [0 as $D; $N];
                d.copy_from_slice(&v);
                d
            };
            let show_digits = |d: &[$D]| -> String { d.iter().map(|x| format!("{:x}", x)).collect::<Vec<_>>().join(",") };
            match op {
                "from_digit" => Some(UT::from_digit(<$D>::from_str_radix(a[0], 16).expect("digit")).out()),
                "from_digits" => Some(UT::from_digits(parse_digits(a[0])).out()),
                "from_array" => Some(<UT as From<[$D; $N]>>::from(parse_digits(a[0])).out()),
                "digits" => Some(show_digits(UT::from_hex(a[0]).digits())),
                "into_array" => { let d: [$D; $N] = UT::from_hex(a[0]).into(); Some(show_digits(&d)) }
                _ => None,
            }
        }
        Some(run as fn(bool, &str, &[&str]) -> Option<String>)
    }};
}

fn main() {
    serve(|op, a0, args| {
        match op {
            "try" => {
                let src = a0;
                let dst = args[0];
                let x = args[1];
                let _ = (src, x);
                match src {
                    "bool" => for_type!(dst, from_bool!(x)),
                    "char" => for_type!(dst, from_char!(x)),
                    _ => for_type!(dst, by_dst!(src x)),
                }
            }
            _ => {
                let (signed, c) = split_cfg(a0);
                let f: Option<fn(bool, &str, &[&str]) -> Option<String>> = for_config!(c, digits_imp);
                f.and_then(|f| f(signed, op, args))
            }
        }
    });
}
