//! C13: TryFrom / BTryFrom / From conversions, digit array access.
use bnum_verif_harness::*;
use bnum::BTryFrom;

fn res<T: Pat, E>(r: Result<T, E>) -> String {
    match r { Ok(x) => format!("Ok({})", x.to_hex()), Err(_) => "Err".into() }
}

// try <src> <dst> <hex> [tf]: dispatch on (dst kind/sign, src kind/sign).
// Trailing `tf`: the `TryFrom` form of the same conversion (for uK -> bnum, iK -> signed bnum, bool, char this is
// core's blanket `impl<T, U: Into<T>> TryFrom<U> for T`, error type `Infallible`).
macro_rules! inner {
    // bnum -> primitive : TryFrom
    (pr $ds:ident ($D:ty) bn $ss:ident ($S:ty) $x:ident $tf:ident) => { if $tf { None } else { Some(res(<$D as TryFrom<$S>>::try_from(<$S as Pat>::from_hex($x)))) } };
    // bnum -> bnum : BTryFrom
    (bn $ds:ident ($D:ty) bn $ss:ident ($S:ty) $x:ident $tf:ident) => { if $tf { None } else { Some(res(<$D as BTryFrom<$S>>::try_from(<$S as Pat>::from_hex($x)))) } };
    // unsigned primitive -> unsigned bnum : From ; signed primitive -> unsigned bnum : TryFrom
    (bn u ($D:ty) pr u ($S:ty) $x:ident $tf:ident) => {
        if $tf { Some(res(<$D as TryFrom<$S>>::try_from(<$S as Pat>::from_hex($x)))) }
        else { Some(format!("Ok({})", <$D as From<$S>>::from(<$S as Pat>::from_hex($x)).to_hex())) }
    };
    (bn u ($D:ty) pr i ($S:ty) $x:ident $tf:ident) => { Some(res(<$D as TryFrom<$S>>::try_from(<$S as Pat>::from_hex($x)))) };
    // primitive -> signed bnum : From
    (bn i ($D:ty) pr $ss:ident ($S:ty) $x:ident $tf:ident) => {
        if $tf { Some(res(<$D as TryFrom<$S>>::try_from(<$S as Pat>::from_hex($x)))) }
        else { Some(format!("Ok({})", <$D as From<$S>>::from(<$S as Pat>::from_hex($x)).to_hex())) }
    };
    (pr $ds:ident ($D:ty) pr $ss:ident ($S:ty) $x:ident $tf:ident) => { None };
}
macro_rules! by_dst {
    ($dk:ident $ds:ident ($D:ty) $src:ident $x:ident $tf:ident) => { for_type!($src, by_src!($dk $ds ($D) $x $tf)) };
}
macro_rules! by_dst_w {
    ($dk:ident $ds:ident ($D:ty) $src:ident $x:ident $tf:ident) => { for_wtype!($src, by_src!($dk $ds ($D) $x $tf)) };
}
macro_rules! by_src {
    ($sk:ident $ss:ident ($S:ty) $dk:ident $ds:ident ($D:ty) $x:ident $tf:ident) => { inner!($dk $ds ($D) $sk $ss ($S) $x $tf) };
}
macro_rules! from_bool {
    (bn $ds:ident ($D:ty) $x:ident $tf:ident) => {
        if $tf { Some(res(<$D as TryFrom<bool>>::try_from($x != "0"))) }
        else { Some(format!("Ok({})", <$D as From<bool>>::from($x != "0").to_hex())) }
    };
    (pr $ds:ident ($D:ty) $x:ident $tf:ident) => { None };
}
macro_rules! from_char {
    (bn u ($D:ty) $x:ident $tf:ident) => {{
        let c = char::from_u32(u32::from_str_radix($x, 16).unwrap()).expect("char");
        if $tf { Some(res(<$D as TryFrom<char>>::try_from(c))) }
        else { Some(format!("Ok({})", <$D as From<char>>::from(c).to_hex())) }
    }};
    ($k:ident $ds:ident ($D:ty) $x:ident $tf:ident) => { None };
}

// The wide vocabulary (not in `for_type!`): every digit type at 8192 bits, odd digit counts (64x127, 16x33),
// 1024 bits, and two single-digit types so that wide <-> narrow and wide <-> primitive-sized pairs exist.
macro_rules! for_wtype {
    ($name:expr, $m:ident ! ( $($extra:tt)* )) => {
        match $name {
            "u8x1024" => $m!(bn u (bnum::BUintD8<1024>) $($extra)*),
            "i8x1024" => $m!(bn i (bnum::BIntD8<1024>) $($extra)*),
            "u16x512" => $m!(bn u (bnum::BUintD16<512>) $($extra)*),
            "i16x512" => $m!(bn i (bnum::BIntD16<512>) $($extra)*),
            "u32x256" => $m!(bn u (bnum::BUintD32<256>) $($extra)*),
            "i32x256" => $m!(bn i (bnum::BIntD32<256>) $($extra)*),
            "u64x128" => $m!(bn u (bnum::BUint<128>) $($extra)*),
            "i64x128" => $m!(bn i (bnum::BInt<128>) $($extra)*),
            // beyond 65535 bits: "all (source type, target type) pairs" has no upper width; bit counts no longer fit u16 here
            "u64x1025" => $m!(bn u (bnum::BUint<1025>) $($extra)*),
            "i64x1025" => $m!(bn i (bnum::BInt<1025>) $($extra)*),
            "u8x8200" => $m!(bn u (bnum::BUintD8<8200>) $($extra)*),
            "i8x8200" => $m!(bn i (bnum::BIntD8<8200>) $($extra)*),
            "u64x127" => $m!(bn u (bnum::BUint<127>) $($extra)*),
            "i64x127" => $m!(bn i (bnum::BInt<127>) $($extra)*),
            "u16x33" => $m!(bn u (bnum::BUintD16<33>) $($extra)*),
            "i16x33" => $m!(bn i (bnum::BIntD16<33>) $($extra)*),
            "u64x16" => $m!(bn u (bnum::BUint<16>) $($extra)*),
            "i64x16" => $m!(bn i (bnum::BInt<16>) $($extra)*),
            "u8x1" => $m!(bn u (bnum::BUintD8<1>) $($extra)*),
            "i8x1" => $m!(bn i (bnum::BIntD8<1>) $($extra)*),
            "u64x1" => $m!(bn u (bnum::BUint<1>) $($extra)*),
            "i64x1" => $m!(bn i (bnum::BInt<1>) $($extra)*),
            "u8" => $m!(pr u (u8) $($extra)*),
            "u16" => $m!(pr u (u16) $($extra)*),
            "u32" => $m!(pr u (u32) $($extra)*),
            "u64" => $m!(pr u (u64) $($extra)*),
            "u128" => $m!(pr u (u128) $($extra)*),
            "usize" => $m!(pr u (usize) $($extra)*),
            "i8" => $m!(pr i (i8) $($extra)*),
            "i16" => $m!(pr i (i16) $($extra)*),
            "i32" => $m!(pr i (i32) $($extra)*),
            "i64" => $m!(pr i (i64) $($extra)*),
            "i128" => $m!(pr i (i128) $($extra)*),
            "isize" => $m!(pr i (isize) $($extra)*),
            _ => None,
        }
    };
}

macro_rules! digits_imp {
    ($U:ident, $I:ident, $D:ty, $N:literal) => {{
        type UT = bnum::$U<$N>;
        fn run(signed: bool, op: &str, a: &[&str]) -> Option<String> {
            if signed { return None; }
            let parse_digits = |s: &str| -> [$D; $N] {
                let v: Vec<$D> = s.split(',').map(|t| <$D>::from_str_radix(t, 16).expect("digit")).collect();
                let mut d = [0 as $D; $N];
                d.copy_from_slice(&v);
                d
            };
            let show_digits = |d: &[$D]| -> String { d.iter().map(|x| format!("{:x}", x)).collect::<Vec<_>>().join(",") };
            match op {
                "from_digit" => Some(UT::from_digit(<$D>::from_str_radix(a[0], 16).expect("digit")).out()),
                "from_digits" => Some(UT::from_digits(parse_digits(a[0])).out()),
                "from_array" => Some(<UT as From<[$D; $N]>>::from(parse_digits(a[0])).out()),
                "digits" => Some(show_digits(UT::from_hex(a[0]).digits())),
                "into_array" => { let d: [$D; $N] = UT::from_hex(a[0]).into(); Some(show_digits(&d)) }
                _ => None,
            }
        }
        Some(run as fn(bool, &str, &[&str]) -> Option<String>)
    }};
}

fn main() {
    serve(|op, a0, args| {
        match op {
            "try" => {
                let src = a0;
                let dst = args[0];
                let x = args[1];
                let tf = match args.get(2) { None => false, Some(&"tf") => true, Some(_) => return None };
                let _ = (src, x, tf);
                let grid: Option<String> = match src {
                    "bool" => for_type!(dst, from_bool!(x tf)),
                    "char" => for_type!(dst, from_char!(x tf)),
                    _ => for_type!(dst, by_dst!(src x tf)),
                };
                // types outside the shared grid: the wide vocabulary of this bin
                grid.or_else(|| match src {
                    "bool" => for_wtype!(dst, from_bool!(x tf)),
                    "char" => for_wtype!(dst, from_char!(x tf)),
                    _ => for_wtype!(dst, by_dst_w!(src x tf)),
                })
            }
            _ => {
                let (signed, c) = split_cfg(a0);
                let f: Option<fn(bool, &str, &[&str]) -> Option<String>> = for_config!(c, digits_imp);
                f.and_then(|f| f(signed, op, args))
            }
        }
    });
}
