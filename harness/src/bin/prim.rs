//! prim: the rustc-compiled primitive operations that the Lean model takes as trusted leaves (`Prim.*`).
//! `prim_<op> u8x1 a [b]` / `i16x1 …`; widths 8, 16, 32, 64 (digit count must be 1).
use bnum_verif_harness::*;

macro_rules! ops {
    ($U:ty, $I:ty, $signed:expr, $op:expr, $a:expr) => {{
        let a: &[&str] = $a;
        let u = |i: usize| <$U as Pat>::from_hex(a[i]);
        let s = |i: usize| <$I as Pat>::from_hex(a[i]);
        let pr = |x: $U, f: bool| format!("({},{})", Hx(x).out(), f.out());
        match ($op, $signed) {
            ("prim_overflowing_add", false) => { let (x, f) = u(0).overflowing_add(u(1)); Some(pr(x, f)) }
            ("prim_overflowing_add", true) => { let (x, f) = s(0).overflowing_add(s(1)); Some(pr(x as $U, f)) }
            ("prim_overflowing_sub", false) => { let (x, f) = u(0).overflowing_sub(u(1)); Some(pr(x, f)) }
            ("prim_overflowing_sub", true) => { let (x, f) = s(0).overflowing_sub(s(1)); Some(pr(x as $U, f)) }
            ("prim_not", _) => Some(Hx(!u(0)).out()),
            ("prim_is_negative", _) => Some(s(0).is_negative().out()),
            ("prim_is_positive", _) => Some(s(0).is_positive().out()),
            ("prim_trailing_zeros", _) => Some(Dec(u(0).trailing_zeros()).out()),
            ("prim_leading_zeros", _) => Some(Dec(u(0).leading_zeros()).out()),
            ("prim_trailing_ones", _) => Some(Dec(u(0).trailing_ones()).out()),
            ("prim_leading_ones", _) => Some(Dec(u(0).leading_ones()).out()),
            ("prim_count_ones", _) => Some(Dec(u(0).count_ones()).out()),
            ("prim_count_zeros", _) => Some(Dec(u(0).count_zeros()).out()),
            ("prim_reverse_bits", _) => Some(Hx(u(0).reverse_bits()).out()),
            ("prim_swap_bytes", _) | ("prim_swap_bytes_endian", _) => Some(Hx(u(0).swap_bytes()).out()),
            ("prim_to_le_bytes", _) => Some(show_bytes(&u(0).to_le_bytes())),
            ("prim_to_be_bytes", _) => Some(show_bytes(&u(0).to_be_bytes())),
            _ => None,
        }
    }};
}

fn main() {
    serve(|op, cfg, args| {
        if op == "prim_utf8_valid" {
            return Some(std::str::from_utf8(&parse_bytes(args[0])).is_ok().out());
        }
        let (signed, c) = split_cfg(cfg);
        match c {
            "8x1" => ops!(u8, i8, signed, op, args),
            "16x1" => ops!(u16, i16, signed, op, args),
            "32x1" => ops!(u32, i32, signed, op, args),
            "64x1" => ops!(u64, i64, signed, op, args),
            _ => None,
        }
    });
}
