//! C16: associated constants and type aliases. `const cfg NAME`, `const_bits cfg`, `const_bytes cfg`,
//! `alias u64x0 NAME` -> "<bits>,<digit count>" of bnum::types::NAME.
use bnum_verif_harness::*;

macro_rules! consts {
    ($T:ty, $name:expr, $($c:ident),*) => { match $name { $( stringify!($c) => Some(<$T>::$c.out()), )* _ => None } };
}
macro_rules! imp {
    ($U:ident, $I:ident, $D:ty, $N:literal) => {{
        type UT = bnum::$U<$N>;
        type IT = bnum::$I<$N>;
        fn run(signed: bool, op: &str, a: &[&str]) -> Option<String> {
            match (op, signed) {
                ("const_bits", false) => Some(Dec(UT::BITS).out()),
                ("const_bits", true) => Some(Dec(IT::BITS).out()),
                ("const_bytes", false) => Some(Dec(UT::BYTES).out()),
                ("const_bytes", true) => Some(Dec(IT::BYTES).out()),
                ("const", false) => consts!(UT, a[0], MIN, MAX, ZERO, ONE, TWO, THREE, FOUR, FIVE, SIX, SEVEN, EIGHT, NINE, TEN),
                ("const", true) => consts!(IT, a[0], MIN, MAX, ZERO, ONE, TWO, THREE, FOUR, FIVE, SIX, SEVEN, EIGHT, NINE, TEN,
                    NEG_ONE, NEG_TWO, NEG_THREE, NEG_FOUR, NEG_FIVE, NEG_SIX, NEG_SEVEN, NEG_EIGHT, NEG_NINE, NEG_TEN),
                _ => None,
            }
        }
        Some(run as fn(bool, &str, &[&str]) -> Option<String>)
    }};
}
macro_rules! alias { ($name:expr, $($t:ident),*) => { match $name { $( stringify!($t) => Some(format!("{},{}", bnum::types::$t::BITS, bnum::types::$t::MAX.to_bits_len())), )* _ => None } } }
trait BitsLen { fn to_bits_len(&self) -> usize; }
impl<const N: usize> BitsLen for bnum::BUint<N> { fn to_bits_len(&self) -> usize { N } }
impl<const N: usize> BitsLen for bnum::BInt<N> { fn to_bits_len(&self) -> usize { N } }

fn main() {
    serve(|op, cfg, args| {
        if op == "alias" {
            return alias!(args[0], U128, U256, U512, U1024, U2048, U4096, U8192, I128, I256, I512, I1024, I2048, I4096, I8192);
        }
        let (signed, c) = split_cfg(cfg);
        let f: Option<fn(bool, &str, &[&str]) -> Option<String>> = for_config!(c, imp);
        f.and_then(|f| f(signed, op, args))
    });
}
