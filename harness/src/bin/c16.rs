//! C16: associated constants and type aliases. `const cfg NAME`, `const_bits cfg`, `const_bytes cfg`,
//! `alias u64x0 NAME` -> "<bits>,<digit count>" of bnum::types::NAME.
//! `cast <src> <dst> <hex>`: the `As` cast (`CastFrom`) between two bnum types, like bin c09 but for the
//! configurations that c09's grid (`for_type!`, <= 192 bits) does not have: every ordered pair (both signednesses)
//! inside each equal-width set of gen/c16.py `GROUPS` (16 ... 512 bits, and 8192 bits from all four digit types)
//! and inside each (narrow, wide) extension pair of gen/c16.py `EXT`.
use bnum_verif_harness::*;
use bnum::cast::CastFrom;
use bnum::{BInt, BIntD16, BIntD32, BIntD8, BUint, BUintD16, BUintD32, BUintD8};

/// `fn $f(src, dst, x)`: `dst::cast_from(src::from_hex(x))` for every ordered pair of the listed types
macro_rules! cast_set {
    ($f:ident; $(($name:literal, $U:ty, $I:ty)),* $(,)?) => {
        fn $f(src: &str, dst: &str, x: &str) -> Option<String> {
            fn to_dst<S: Copy>(v: S, dst: &str) -> Option<String>
            where $( $U: CastFrom<S>, $I: CastFrom<S>, )*
            {
                $(
                    if dst == concat!("u", $name) { return Some(Pat::to_hex(&<$U as CastFrom<S>>::cast_from(v))); }
                    if dst == concat!("i", $name) { return Some(Pat::to_hex(&<$I as CastFrom<S>>::cast_from(v))); }
                )*
                None
            }
            $(
                if src == concat!("u", $name) { return to_dst(<$U as Pat>::from_hex(x), dst); }
                if src == concat!("i", $name) { return to_dst(<$I as Pat>::from_hex(x), dst); }
            )*
            None
        }
    };
}
cast_set!(g16; ("8x2", BUintD8<2>, BIntD8<2>), ("16x1", BUintD16<1>, BIntD16<1>));
cast_set!(g32; ("8x4", BUintD8<4>, BIntD8<4>), ("16x2", BUintD16<2>, BIntD16<2>), ("32x1", BUintD32<1>, BIntD32<1>));
cast_set!(g64; ("8x8", BUintD8<8>, BIntD8<8>), ("16x4", BUintD16<4>, BIntD16<4>), ("32x2", BUintD32<2>, BIntD32<2>), ("64x1", BUint<1>, BInt<1>));
cast_set!(g96; ("8x12", BUintD8<12>, BIntD8<12>), ("32x3", BUintD32<3>, BIntD32<3>));
cast_set!(g128; ("8x16", BUintD8<16>, BIntD8<16>), ("32x4", BUintD32<4>, BIntD32<4>), ("64x2", BUint<2>, BInt<2>));
cast_set!(g192; ("8x24", BUintD8<24>, BIntD8<24>), ("16x12", BUintD16<12>, BIntD16<12>), ("32x6", BUintD32<6>, BIntD32<6>), ("64x3", BUint<3>, BInt<3>));
cast_set!(g320; ("8x40", BUintD8<40>, BIntD8<40>), ("16x20", BUintD16<20>, BIntD16<20>), ("32x10", BUintD32<10>, BIntD32<10>), ("64x5", BUint<5>, BInt<5>));
cast_set!(g512; ("8x64", BUintD8<64>, BIntD8<64>), ("64x8", BUint<8>, BInt<8>));
cast_set!(g8192; ("8x1024", BUintD8<1024>, BIntD8<1024>), ("16x512", BUintD16<512>, BIntD16<512>), ("32x256", BUintD32<256>, BIntD32<256>), ("64x128", BUint<128>, BInt<128>));
// (narrow, wide) pairs: zero-/sign-extension (and, in the other direction, truncation)
cast_set!(e1; ("64x2", BUint<2>, BInt<2>), ("64x16", BUint<16>, BInt<16>));
cast_set!(e2; ("64x3", BUint<3>, BInt<3>), ("8x40", BUintD8<40>, BIntD8<40>));
cast_set!(e3; ("8x16", BUintD8<16>, BIntD8<16>), ("8x1024", BUintD8<1024>, BIntD8<1024>));
cast_set!(e4; ("64x5", BUint<5>, BInt<5>), ("16x512", BUintD16<512>, BIntD16<512>));
cast_set!(e5; ("16x9", BUintD16<9>, BIntD16<9>), ("32x256", BUintD32<256>, BIntD32<256>));
cast_set!(e6; ("32x6", BUintD32<6>, BIntD32<6>), ("64x128", BUint<128>, BInt<128>));
cast_set!(e7; ("64x2", BUint<2>, BInt<2>), ("64x128", BUint<128>, BInt<128>));
cast_set!(e8; ("8x5", BUintD8<5>, BIntD8<5>), ("64x4", BUint<4>, BInt<4>));
cast_set!(e9; ("64x8", BUint<8>, BInt<8>), ("8x1024", BUintD8<1024>, BIntD8<1024>));
cast_set!(e10; ("8x7", BUintD8<7>, BIntD8<7>), ("64x1", BUint<1>, BInt<1>));
cast_set!(e11; ("8x5", BUintD8<5>, BIntD8<5>), ("16x4", BUintD16<4>, BIntD16<4>));
cast_set!(e12; ("32x2", BUintD32<2>, BIntD32<2>), ("8x17", BUintD8<17>, BIntD8<17>));
cast_set!(e13; ("32x1", BUintD32<1>, BIntD32<1>), ("8x5", BUintD8<5>, BIntD8<5>));
cast_set!(e14; ("16x3", BUintD16<3>, BIntD16<3>), ("64x1", BUint<1>, BInt<1>));

fn cast(src: &str, dst: &str, x: &str) -> Option<String> {
    const SETS: [fn(&str, &str, &str) -> Option<String>; 23] =
        [g16, g32, g64, g96, g128, g192, g320, g512, g8192, e1, e2, e3, e4, e5, e6, e7, e8, e9, e10, e11, e12, e13, e14];
    SETS.iter().find_map(|f| f(src, dst, x))
}

macro_rules! consts {
    ($T:ty, $name:expr, $($c:ident),*) => { match $name { $( stringify!($c) => Some(<$T>::$c.out()), )* _ => None } };
}
macro_rules! imp {
    ($U:ident, $I:ident, $D:ty, $N:literal) => {{
        type UT = bnum::$U<$N>;
        type IT = bnum::$I<$N>;
        fn run(signed: bool, op: &str, a: &[&str]) -> Option<String> {
            match (op, signed) {
                ("const_bits", false) => Some(Dec(UT::BITS).out()),
                ("const_bits", true) => Some(Dec(IT::BITS).out()),
                ("const_bytes", false) => Some(Dec(UT::BYTES).out()),
                ("const_bytes", true) => Some(Dec(IT::BYTES).out()),
                ("const", false) => consts!(UT, a[0], MIN, MAX, ZERO, ONE, TWO, THREE, FOUR, FIVE, SIX, SEVEN, EIGHT, NINE, TEN),
                ("const", true) => consts!(IT, a[0], MIN, MAX, ZERO, ONE, TWO, THREE, FOUR, FIVE, SIX, SEVEN, EIGHT, NINE, TEN,
                    NEG_ONE, NEG_TWO, NEG_THREE, NEG_FOUR, NEG_FIVE, NEG_SIX, NEG_SEVEN, NEG_EIGHT, NEG_NINE, NEG_TEN),
                _ => None,
            }
        }
        Some(run as fn(bool, &str, &[&str]) -> Option<String>)
    }};
}
macro_rules! alias { ($name:expr, $($t:ident),*) => { match $name { $( stringify!($t) => Some(format!("{},{}", bnum::types::$t::BITS, bnum::types::$t::MAX.to_bits_len())), )* _ => None } } }
trait BitsLen { fn to_bits_len(&self) -> usize; }
impl<const N: usize> BitsLen for bnum::BUint<N> { fn to_bits_len(&self) -> usize { N } }
impl<const N: usize> BitsLen for bnum::BInt<N> { fn to_bits_len(&self) -> usize { N } }

fn main() {
    serve(|op, cfg, args| {
        if op == "cast" {
            return cast(cfg, args[0], args[1]);
        }
        if op == "alias" {
            return alias!(args[0], U128, U256, U512, U1024, U2048, U4096, U8192, I128, I256, I512, I1024, I2048, I4096, I8192);
        }
        let (signed, c) = split_cfg(cfg);
        let f: Option<fn(bool, &str, &[&str]) -> Option<String>> = for_config!(c, imp);
        f.and_then(|f| f(signed, op, args))
    });
}
