//! C14: float <-> integer casts (floats as bit patterns).
//!   to_f32 / to_f64 / from_f32 / from_f64            through `CastFrom::cast_from`
//!   as_to_f32 / as_to_f64 / as_from_f32 / as_from_f64 through `As::as_`
//!   prim_to_f32 / prim_to_f64 / prim_from_f32 / prim_from_f64
//!        rustc's own `as` on the PRIMITIVE integer of the same width and signedness as the configuration
//!        (8, 16, 32, 64, 128 bits): the reference the property names ("exactly like Rust's `as`"); no bnum
//!        code involved.  The Lean side answers with the bnum model and the exact spec for that width.
//! Every op takes an optional first argument `dbg` / `rel`: the request is then answered only by the build
//! with that mode (the other one answers `skip`).
use bnum_verif_harness::*;
use bnum::cast::{As, CastFrom};

fn f32_of(s: &str) -> f32 { f32::from_bits(u32::from_str_radix(s, 16).unwrap()) }
fn f64_of(s: &str) -> f64 { f64::from_bits(u64::from_str_radix(s, 16).unwrap()) }

macro_rules! ops {
    ($T:ty, $op:expr, $a:expr) => {{
        let a: &[&str] = $a;
        match $op {
            "to_f32" => Some(format!("{:x}", <f32 as CastFrom<$T>>::cast_from(<$T>::from_hex(a[0])).to_bits())),
            "to_f64" => Some(format!("{:x}", <f64 as CastFrom<$T>>::cast_from(<$T>::from_hex(a[0])).to_bits())),
            "from_f32" => Some(<$T as CastFrom<f32>>::cast_from(f32_of(a[0])).to_hex()),
            "from_f64" => Some(<$T as CastFrom<f64>>::cast_from(f64_of(a[0])).to_hex()),
            "as_to_f32" => Some(format!("{:x}", As::as_::<f32>(<$T>::from_hex(a[0])).to_bits())),
            "as_to_f64" => Some(format!("{:x}", As::as_::<f64>(<$T>::from_hex(a[0])).to_bits())),
            "as_from_f32" => Some(As::as_::<$T>(f32_of(a[0])).to_hex()),
            "as_from_f64" => Some(As::as_::<$T>(f64_of(a[0])).to_hex()),
            _ => None,
        }
    }};
}

macro_rules! imp {
    ($U:ident, $I:ident, $D:ty, $N:literal) => {{
        fn run(signed: bool, op: &str, a: &[&str]) -> Option<String> {
            if signed { ops!(bnum::$I<$N>, op, a) } else { ops!(bnum::$U<$N>, op, a) }
        }
        Some(run as fn(bool, &str, &[&str]) -> Option<String>)
    }};
}

/// rustc's `as` between the primitive integer `$P` and f32 / f64
macro_rules! prim_ops {
    ($P:ty, $op:expr, $a:expr) => {{
        let a: &[&str] = $a;
        match $op {
            "prim_to_f32" => Some(format!("{:x}", (<$P>::from_hex(a[0]) as f32).to_bits())),
            "prim_to_f64" => Some(format!("{:x}", (<$P>::from_hex(a[0]) as f64).to_bits())),
            "prim_from_f32" => Some((f32_of(a[0]) as $P).to_hex()),
            "prim_from_f64" => Some((f64_of(a[0]) as $P).to_hex()),
            _ => None,
        }
    }};
}

fn prim(signed: bool, c: &str, op: &str, a: &[&str]) -> Option<String> {
    let (w, n) = c.split_once('x')?;
    let bits = w.parse::<u32>().ok()? * n.parse::<u32>().ok()?;
    match (signed, bits) {
        (false, 8) => prim_ops!(u8, op, a),
        (false, 16) => prim_ops!(u16, op, a),
        (false, 32) => prim_ops!(u32, op, a),
        (false, 64) => prim_ops!(u64, op, a),
        (false, 128) => prim_ops!(u128, op, a),
        (true, 8) => prim_ops!(i8, op, a),
        (true, 16) => prim_ops!(i16, op, a),
        (true, 32) => prim_ops!(i32, op, a),
        (true, 64) => prim_ops!(i64, op, a),
        (true, 128) => prim_ops!(i128, op, a),
        _ => None,
    }
}

fn main() {
    serve(|op, cfg, args| {
        let (signed, c) = split_cfg(cfg);
        let mut args = args;
        if let Some(&m) = args.first() {
            if m == "dbg" || m == "rel" {
                if !mode_ok(m) {
                    return Some("skip".into());
                }
                args = &args[1..];
            }
        }
        if op.starts_with("prim_") {
            return prim(signed, c, op, args);
        }
        let f: Option<fn(bool, &str, &[&str]) -> Option<String>> = for_config!(c, imp);
        f.and_then(|f| f(signed, op, args))
    });
}
