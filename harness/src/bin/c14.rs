//! C14: float <-> integer casts (floats as bit patterns).
use bnum_verif_harness::*;
use bnum::cast::CastFrom;

macro_rules! ops {
    ($T:ty, $op:expr, $a:expr) => {{
        let a: &[&str] = $a;
        match $op {
            "to_f32" => Some(format!("{:x}", <f32 as CastFrom<$T>>::cast_from(<$T>::from_hex(a[0])).to_bits())),
            "to_f64" => Some(format!("{:x}", <f64 as CastFrom<$T>>::cast_from(<$T>::from_hex(a[0])).to_bits())),
            "from_f32" => Some(<$T as CastFrom<f32>>::cast_from(f32::from_bits(u32::from_str_radix(a[0], 16).unwrap())).to_hex()),
            "from_f64" => Some(<$T as CastFrom<f64>>::cast_from(f64::from_bits(u64::from_str_radix(a[0], 16).unwrap())).to_hex()),
            _ => None,
        }
    }};
}

macro_rules! imp {
    ($U:ident, $I:ident, $D:ty, $N:literal) => {{
        fn run(signed: bool, op: &str, a: &[&str]) -> Option<String> {
            if signed { ops!(bnum::$I<$N>, op, a) } else { ops!(bnum::$U<$N>, op, a) }
        }
        Some(run as fn(bool, &str, &[&str]) -> Option<String>)
    }};
}

fn main() {
    serve(|op, cfg, args| {
        let (signed, c) = split_cfg(cfg);
        let f: Option<fn(bool, &str, &[&str]) -> Option<String>> = for_config!(c, imp);
        f.and_then(|f| f(signed, op, args))
    });
}
