//! C19: num_traits FromPrimitive / ToPrimitive / AsPrimitive (feature numtraits), called through the traits.
use bnum_verif_harness::*;
use num_traits::{AsPrimitive, FromPrimitive, ToPrimitive};

macro_rules! prim_ops {
    ($T:ty, $op:expr, $a:expr; $($p:ident $from:ident $to:ident $as_:literal),*) => {{
        let a: &[&str] = $a;
        match $op {
            $(
            stringify!($from) => return Some(<$T as FromPrimitive>::$from(<$p as Pat>::from_hex(a[0])).out()),
            stringify!($to) => return Some(<$T as ToPrimitive>::$to(&<$T>::from_hex(a[0])).map(Hx).out()),
            $as_ => return Some(Hx(<$T as AsPrimitive<$p>>::as_(<$T>::from_hex(a[0]))).out()),
            )*
            _ => {}
        }
    }};
}

macro_rules! ops {
    ($T:ty, $op:expr, $a:expr) => {{
        let a: &[&str] = $a;
        prim_ops!($T, $op, a;
            u8 from_u8 to_u8 "as_u8", u16 from_u16 to_u16 "as_u16", u32 from_u32 to_u32 "as_u32", u64 from_u64 to_u64 "as_u64",
            u128 from_u128 to_u128 "as_u128", usize from_usize to_usize "as_usize",
            i8 from_i8 to_i8 "as_i8", i16 from_i16 to_i16 "as_i16", i32 from_i32 to_i32 "as_i32", i64 from_i64 to_i64 "as_i64",
            i128 from_i128 to_i128 "as_i128", isize from_isize to_isize "as_isize");
        match $op {
            "nt_from_f32" => Some(<$T as FromPrimitive>::from_f32(f32::from_bits(u32::from_str_radix(a[0], 16).unwrap())).out()),
            "nt_from_f64" => Some(<$T as FromPrimitive>::from_f64(f64::from_bits(u64::from_str_radix(a[0], 16).unwrap())).out()),
            "nt_to_f32" => Some(<$T as ToPrimitive>::to_f32(&<$T>::from_hex(a[0])).map(|f| format!("{:x}", f.to_bits())).out()),
            "nt_to_f64" => Some(<$T as ToPrimitive>::to_f64(&<$T>::from_hex(a[0])).map(|f| format!("{:x}", f.to_bits())).out()),
            "as_f32" => Some(format!("{:x}", <$T as AsPrimitive<f32>>::as_(<$T>::from_hex(a[0])).to_bits())),
            "as_f64" => Some(format!("{:x}", <$T as AsPrimitive<f64>>::as_(<$T>::from_hex(a[0])).to_bits())),
            _ => None,
        }
    }};
}

macro_rules! imp {
    ($U:ident, $I:ident, $D:ty, $N:literal) => {{
        fn run(signed: bool, op: &str, a: &[&str]) -> Option<String> {
            if signed { ops!(bnum::$I<$N>, op, a) } else { ops!(bnum::$U<$N>, op, a) }
        }
        Some(run as fn(bool, &str, &[&str]) -> Option<String>)
    }};
}

fn main() {
    serve(|op, cfg, args| {
        let (signed, c) = split_cfg(cfg);
        let f: Option<fn(bool, &str, &[&str]) -> Option<String>> = for_config!(c, imp);
        f.and_then(|f| f(signed, op, args))
    });
}
