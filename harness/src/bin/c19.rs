//! C19: num_traits FromPrimitive / ToPrimitive / AsPrimitive (feature numtraits), called through the traits.
//!
//! Requests `op cfg [dbg|rel] args…`: a request tagged with a build mode is answered only by the
//! binary built in that mode (the other one answers `skip`), so that the model can be run with the
//! matching `dbg` flag.  Untagged requests are answered by both binaries.
//!
//! Every `as_*` operation ("AsPrimitive::as_ equals the As cast") evaluates THREE expressions on the
//! same operand — `num_traits::AsPrimitive::as_`, `bnum::cast::CastFrom::cast_from` and
//! `bnum::cast::As::as_` — and answers `MISMATCH(as_=..,cast_from=..,As=..)` unless all agree.
use bnum::cast::{As, CastFrom};
use bnum_verif_harness::*;
use num_traits::{AsPrimitive, FromPrimitive, ToPrimitive};

/// the answer of an `as_*` request: the common pattern, or the disagreement
fn same(r: String, c: String, c2: String) -> String {
    if r == c && r == c2 { r } else { format!("MISMATCH(as_={},cast_from={},As={})", r, c, c2) }
}
fn f32_of(s: &str) -> f32 { f32::from_bits(u32::from_str_radix(s, 16).unwrap()) }
fn f64_of(s: &str) -> f64 { f64::from_bits(u64::from_str_radix(s, 16).unwrap()) }

macro_rules! prim_ops {
    ($T:ty, $op:expr, $a:expr; $($p:ident $from:ident $to:ident $as_:literal $asfrom:literal),*) => {{
        let a: &[&str] = $a;
        match $op {
            $(
            stringify!($from) => return Some(<$T as FromPrimitive>::$from(<$p as Pat>::from_hex(a[0])).out()),
            stringify!($to) => return Some(<$T as ToPrimitive>::$to(&<$T>::from_hex(a[0])).map(Hx).out()),
            $as_ => {
                let x = <$T>::from_hex(a[0]);
                return Some(same(Hx(<$T as AsPrimitive<$p>>::as_(x)).out(),
                                 Hx(<$p as CastFrom<$T>>::cast_from(x)).out(),
                                 Hx(<$T as As>::as_::<$p>(x)).out()));
            }
            $asfrom => {
                let p = <$p as Pat>::from_hex(a[0]);
                return Some(same(<$p as AsPrimitive<$T>>::as_(p).out(),
                                 <$T as CastFrom<$p>>::cast_from(p).out(),
                                 <$p as As>::as_::<$T>(p).out()));
            }
            )*
            _ => {}
        }
    }};
}

macro_rules! float_ops {
    ($T:ty, $op:expr, $a:expr; $($f:ident $of:ident $ntfrom:literal $ntto:literal $as_:literal $asfrom:literal $from:ident $to:ident),*) => {{
        let a: &[&str] = $a;
        match $op {
            $(
            $ntfrom => return Some(<$T as FromPrimitive>::$from($of(a[0])).out()),
            $ntto => return Some(<$T as ToPrimitive>::$to(&<$T>::from_hex(a[0])).map(|f| format!("{:x}", f.to_bits())).out()),
            $as_ => {
                let x = <$T>::from_hex(a[0]);
                return Some(same(format!("{:x}", <$T as AsPrimitive<$f>>::as_(x).to_bits()),
                                 format!("{:x}", <$f as CastFrom<$T>>::cast_from(x).to_bits()),
                                 format!("{:x}", <$T as As>::as_::<$f>(x).to_bits())));
            }
            $asfrom => {
                let p = $of(a[0]);
                return Some(same(<$f as AsPrimitive<$T>>::as_(p).out(),
                                 <$T as CastFrom<$f>>::cast_from(p).out(),
                                 <$f as As>::as_::<$T>(p).out()));
            }
            )*
            _ => {}
        }
    }};
}

macro_rules! ops {
    ($T:ty, $op:expr, $a:expr) => {{
        let a: &[&str] = $a;
        prim_ops!($T, $op, a;
            u8 from_u8 to_u8 "as_u8" "as_from_u8", u16 from_u16 to_u16 "as_u16" "as_from_u16",
            u32 from_u32 to_u32 "as_u32" "as_from_u32", u64 from_u64 to_u64 "as_u64" "as_from_u64",
            u128 from_u128 to_u128 "as_u128" "as_from_u128", usize from_usize to_usize "as_usize" "as_from_usize",
            i8 from_i8 to_i8 "as_i8" "as_from_i8", i16 from_i16 to_i16 "as_i16" "as_from_i16",
            i32 from_i32 to_i32 "as_i32" "as_from_i32", i64 from_i64 to_i64 "as_i64" "as_from_i64",
            i128 from_i128 to_i128 "as_i128" "as_from_i128", isize from_isize to_isize "as_isize" "as_from_isize");
        float_ops!($T, $op, a;
            f32 f32_of "nt_from_f32" "nt_to_f32" "as_f32" "as_from_f32" from_f32 to_f32,
            f64 f64_of "nt_from_f64" "nt_to_f64" "as_f64" "as_from_f64" from_f64 to_f64);
        match $op {
            "as_from_char" => {
                let c = char::from_u32(u32::from_str_radix(a[0], 16).unwrap()).expect("scalar value");
                Some(same(<char as AsPrimitive<$T>>::as_(c).out(),
                          <$T as CastFrom<char>>::cast_from(c).out(),
                          <char as As>::as_::<$T>(c).out()))
            }
            "as_from_bool" => {
                let b = parse_bool(a[0]);
                Some(same(<bool as AsPrimitive<$T>>::as_(b).out(),
                          <$T as CastFrom<bool>>::cast_from(b).out(),
                          <bool as As>::as_::<$T>(b).out()))
            }
            _ => None,
        }
    }};
}

macro_rules! imp {
    ($U:ident, $I:ident, $D:ty, $N:literal) => {{
        fn run(signed: bool, op: &str, a: &[&str]) -> Option<String> {
            if signed { ops!(bnum::$I<$N>, op, a) } else { ops!(bnum::$U<$N>, op, a) }
        }
        Some(run as fn(bool, &str, &[&str]) -> Option<String>)
    }};
}

/// `<S as AsPrimitive<D>>::as_` for two bnum types of the same digit type
/// (`impl AsPrimitive<$BUint<M>> / AsPrimitive<$BInt<M>> for $Int<N>`, src/int/numtraits.rs:166-178)
fn as_big<S, D>(a: &str) -> String
where
    S: Pat + Copy + 'static + AsPrimitive<D>,
    D: Pat + Copy + 'static + CastFrom<S>,
{
    let x = S::from_hex(a);
    same(<S as AsPrimitive<D>>::as_(x).to_hex(), <D as CastFrom<S>>::cast_from(x).to_hex(), <S as As>::as_::<D>(x).to_hex())
}

macro_rules! big_dst {
    ($S:ty, $U:ident, $I:ident, $ds:expr, $m:expr, $a:expr; [$($M:literal),*]) => {
        match $m {
            $( $M => Some(if $ds { as_big::<$S, bnum::$I<$M>>($a) } else { as_big::<$S, bnum::$U<$M>>($a) }), )*
            _ => None,
        }
    };
}
/// every ordered pair (N, M) of the size list, all four signedness combinations
macro_rules! big_src {
    ($U:ident, $I:ident, $ss:expr, $ds:expr, $n:expr, $m:expr, $a:expr; [$($N:literal),*]; $ms:tt) => {
        match $n {
            $( $N => if $ss { big_dst!(bnum::$I<$N>, $U, $I, $ds, $m, $a; $ms) } else { big_dst!(bnum::$U<$N>, $U, $I, $ds, $m, $a; $ms) }, )*
            _ => None,
        }
    };
}

fn cfg_wn(c: &str) -> (u32, usize) {
    let (w, n) = c.split_once('x').expect("cfg");
    (w.parse().unwrap(), n.parse().unwrap())
}

/// `as_big <src cfg> <dst cfg> a`: digit counts per digit type are those of gen/c19.py `BIG_SIZES`
fn run_as_big(src: &str, dst: &str, a: &str) -> Option<String> {
    let (ss, sc) = split_cfg(src);
    let (ds, dc) = split_cfg(dst);
    let (w, n) = cfg_wn(sc);
    let (w2, m) = cfg_wn(dc);
    if w != w2 {
        return None;
    }
    match w {
        8 => big_src!(BUintD8, BIntD8, ss, ds, n, m, a; [1, 2, 3, 17, 1024]; [1, 2, 3, 17, 1024]),
        16 => big_src!(BUintD16, BIntD16, ss, ds, n, m, a; [1, 3, 5, 512]; [1, 3, 5, 512]),
        32 => big_src!(BUintD32, BIntD32, ss, ds, n, m, a; [2, 3, 6, 256]; [2, 3, 6, 256]),
        64 => big_src!(BUint, BInt, ss, ds, n, m, a; [1, 2, 3, 8, 128]; [1, 2, 3, 8, 128]),
        _ => None,
    }
}

fn main() {
    serve(|op, cfg, args| {
        // optional build-mode tag
        let args = match args.first() {
            Some(&"dbg") | Some(&"rel") => {
                if !mode_ok(args[0]) {
                    return Some("skip".into());
                }
                &args[1..]
            }
            _ => args,
        };
        if op == "as_big" {
            return run_as_big(cfg, args[0], args[1]);
        }
        let (signed, c) = split_cfg(cfg);
        let f: Option<fn(bool, &str, &[&str]) -> Option<String>> = for_config!(c, imp);
        f.and_then(|f| f(signed, op, args))
    });
}
