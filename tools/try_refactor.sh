#!/bin/bash
# usage: tools/try_refactor.sh <patch.diff> : apply a behaviour-preserving patch to /repo, confirm the crate's own
# test suite passes, run every quick check (development mode, --skip-proof) and revert.  Every line must be OK /
# KNOWN-FINDING: anything else is a false alarm of the machinery.
P=$1
git -C /repo status --short | grep -q . && { echo "/repo not clean"; exit 2; }
git -C /repo apply "$P" || { echo "patch does not apply"; exit 2; }
trap 'git -C /repo checkout -- .; git -C /repo clean -fdq' EXIT
(cd /repo && CARGO_NET_OFFLINE=true cargo test --workspace --no-fail-fast --offline 2>&1 | grep -E "^test result|FAILED|failed" | sort | uniq -c | tail -4)
cd /verif
for p in $(python3 -c "import json;print(' '.join(c['property_id'] for c in json.load(open('MANIFEST.json'))['checks']))"); do
  python3 check.py $p --skip-proof 2>&1 | grep -E "^OK|^VIOL|^WARN|internal" | cut -c1-140
done
