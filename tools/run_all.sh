#!/bin/bash
# run every claimed check (tier from $1, default quick) sequentially; print one line per property
TIER=${1:-quick}
cd "$(dirname "$0")/.."
for p in $(python3 -c "import json;print(' '.join(c['property_id'] for c in json.load(open('MANIFEST.json'))['checks']))"); do
  python3 check.py $p --tier $TIER 2>&1 | grep -E "^OK|^VIOL|^KNOWN|^WARN|internal" | cut -c1-220
done
