#!/bin/bash
# usage: tools/try_mutation.sh <PID> <dir-with-patch.diff,demo.rs,meta.json> [extra property ids to run]
# 1. confirm in a scratch worktree: demo passes without the change, fails with it, test suite passes with it
# 2. apply to /repo, run the check(s), revert.  Prints a one-line verdict per check.
PID=$1; DIR=$2; shift 2; EXTRA="$@"
# a background `vp run` reads /repo's working tree too: a mutation applied here would be reported there as a violation
if vp runs 2>/dev/null | grep -q "running"; then echo "WARNING: a background vp run is active; it will see this mutation of /repo"; fi
WT=/tmp/confirm_$$
set -u
git -C /repo worktree add -q $WT HEAD || exit 2
mkdir -p $WT/examples
cp $DIR/demo.rs $WT/examples/mutdemo.rs
FEAT=""
grep -q "num_integer\|num_traits" $DIR/demo.rs && FEAT="--features numtraits"
grep -q "rand::" $DIR/demo.rs && FEAT="--features rand"
( cd $WT && cargo run --offline $FEAT --example mutdemo >/tmp/confirm_$$.a 2>&1 && cargo run --offline --release $FEAT --example mutdemo >>/tmp/confirm_$$.a 2>&1 ); A=$?
( cd $WT && git apply $DIR/patch.diff ) || { echo "PATCH DOES NOT APPLY"; git -C /repo worktree remove --force $WT; exit 2; }
( cd $WT && cargo run --offline $FEAT --example mutdemo >/tmp/confirm_$$.b 2>&1 && cargo run --offline --release $FEAT --example mutdemo >>/tmp/confirm_$$.b 2>&1 ); B=$?
rm -f $WT/examples/mutdemo.rs
( cd $WT && cargo test --workspace --no-fail-fast --offline >/tmp/confirm_$$.t 2>&1 ); T=$?
FAILS=$(grep -c "^test result: FAILED\|test result: FAILED" /tmp/confirm_$$.t)
echo "confirm: demo_without=$A demo_with=$B tests_rc=$T failed_suites=$FAILS"
git -C /repo worktree remove --force $WT
rm -f /tmp/confirm_$$.*
if [ "$A" != "0" ] || [ "$B" = "0" ] || [ "$T" != "0" ]; then echo "NOT CONFIRMED"; exit 3; fi
git -C /repo apply $DIR/patch.diff || exit 2
for P in $PID $EXTRA; do
  OUT=$(cd /verif && python3 check.py $P --skip-proof 2>&1 | grep -E "^VIOLATION|^OK|^KNOWN|internal error" | head -3 | cut -c1-200)
  echo "check $P: $OUT"
done
git -C /repo checkout -- .
