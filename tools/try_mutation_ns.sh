#!/bin/bash
# usage: tools/try_mutation_ns.sh <PID> <dir-with-patch.diff,demo.rs,meta.json> [extra property ids to run]
# Same protocol as try_mutation.sh, but NEVER touches /repo or /verif: the change is applied to a private copy of
# /repo, and the checks run from a private copy of /verif inside a mount namespace in which those copies are
# bind-mounted over /repo and /verif.  Several trials can therefore run in parallel, and other work in /verif or
# against /repo is not disturbed.
# 1. confirm: demo passes without the change, fails with it, test suite passes with it
# 2. run the check(s) (development mode, --skip-proof) against the changed copy.  One verdict line per check.
PID=$1; DIR=$(readlink -f "$2"); shift 2; EXTRA="$@"
T=/tmp/trial_$$
set -u
mkdir -p $T/repo $T/verif
rsync -a --exclude target --exclude .git /repo/ $T/repo/
rsync -a --exclude .git --exclude evidence/replays /verif/ $T/verif/
trap 'rm -rf $T' EXIT
mkdir -p $T/repo/examples
cp $DIR/demo.rs $T/repo/examples/mutdemo.rs
FEAT=""
grep -q "num_integer\|num_traits" $DIR/demo.rs && FEAT="--features numtraits"
grep -q "rand::" $DIR/demo.rs && FEAT="--features rand"
( cd $T/repo && cargo run --offline $FEAT --example mutdemo >$T/a.log 2>&1 && cargo run --offline --release $FEAT --example mutdemo >>$T/a.log 2>&1 ); A=$?
( cd $T/repo && git apply $DIR/patch.diff ) || { echo "PATCH DOES NOT APPLY"; exit 2; }
( cd $T/repo && cargo run --offline $FEAT --example mutdemo >$T/b.log 2>&1 && cargo run --offline --release $FEAT --example mutdemo >>$T/b.log 2>&1 ); B=$?
rm -f $T/repo/examples/mutdemo.rs
( cd $T/repo && cargo test --workspace --no-fail-fast --offline >$T/t.log 2>&1 ); TR=$?
FAILS=$(grep -c "test result: FAILED" $T/t.log)
echo "confirm: demo_without=$A demo_with=$B tests_rc=$TR failed_suites=$FAILS"
rm -rf $T/repo/target
if [ "$A" != "0" ] || [ "$B" = "0" ] || [ "$TR" != "0" ]; then echo "NOT CONFIRMED"; exit 3; fi
TIER=${TIER:-quick}
unshare -m bash -c "mount --bind $T/repo /repo && mount --bind $T/verif /verif && cd /verif && for P in $PID $EXTRA; do OUT=\$(python3 check.py \$P --tier $TIER --skip-proof 2>&1 | grep -E '^VIOLATION|^OK|^KNOWN|internal error' | grep -v '^KNOWN' | head -3 | cut -c1-200); echo \"check \$P: \$OUT\"; done; mkdir -p $T/out; cp -r /verif/evidence/replays $T/out/ 2>/dev/null"
mkdir -p /tmp/trial_replays; cp $T/out/replays/*.json /tmp/trial_replays/ 2>/dev/null
exit 0
