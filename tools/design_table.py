#!/usr/bin/env python3
"""Regenerate the seeded-change table of DESIGN.md section 9 from seeded/*/meta.json.

The table lives between the header row `| seeded | change | needs | caught by |` and the first
following line that does not start with `|`.  Prints summary counts per round."""
import json, os, re, sys
ROOT = os.path.dirname(os.path.dirname(os.path.abspath(__file__)))


def key(d):
    m = re.match(r"C(\d+)-(?:r(\d+))?m(\d+)", d)
    return (int(m.group(1)), int(m.group(2) or 1), int(m.group(3)))


def clip(s, n):
    s = " ".join(s.replace("|", "/").split())
    return s if len(s) <= n else s[:n] + "..."


def caught(v):
    if v.startswith("first run: reported"):
        m = re.search(r"after (.*?): VIOLATION", v)
        return "quick tier, at first only as `no-failing-input-found`; concrete input after " + clip(m.group(1) if m else "", 160)
    if "MISSED" not in v:
        return "quick tier"
    m = re.search(r"after (adding .*?|.*?): VIOLATION", v)
    how = m.group(1) if m else v
    if v.startswith("quick tier: MISSED"):
        return "**quick tier misses it; thorough tier** — " + clip(how, 200)
    return "**missed at first** — " + clip(how, 200)


def main():
    rows, rounds = [], {}
    for d in sorted(os.listdir(f"{ROOT}/seeded"), key=key):
        m = json.load(open(f"{ROOT}/seeded/{d}/meta.json"))
        c = caught(m.get("check_verdict", ""))
        r = key(d)[1]
        tot, miss = rounds.get(r, (0, 0))
        rounds[r] = (tot + 1, miss + (c != "quick tier"))
        rows.append(f"| {d} | {clip(m['what'], 150)} | {clip(m['needs'], 110)} | {c} |")
    p = f"{ROOT}/DESIGN.md"
    L = open(p).read().split("\n")
    i = next(k for k, l in enumerate(L) if l.startswith("| seeded | change | needs | caught by |"))
    j = i + 2
    while j < len(L) and L[j].startswith("|"):
        j += 1
    L[i + 2:j] = rows
    open(p, "w").write("\n".join(L))
    print(len(rows), "rows;", {f"round{r}": f"{m}/{t} missed at first" for r, (t, m) in sorted(rounds.items())})


if __name__ == "__main__":
    main()
