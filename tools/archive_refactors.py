#!/usr/bin/env python3
"""archive_refactors.py : copy the behaviour-preserving patches of /tmp/refwork_<k>/r<i>/ (patch.diff, note.txt, trial logs)
to /verif/refactors/<k>-r<i>/ with a meta.json summarising what every check said (tools/try_refactor_ns.sh).
`retrial.log` (a second trial after a fix of the machinery, possibly restricted to some checks) overrides the first per check."""
import json, os, re, shutil, sys
ROOT = os.path.dirname(os.path.dirname(os.path.abspath(__file__)))
out = []
for k in range(1, 10):
    for r in ("r1", "r2", "r3"):
        d = f"/tmp/refwork_{k}/{r}"
        if not os.path.exists(d + "/patch.diff") or not os.path.exists(d + "/trial.log"):
            continue
        dst = os.path.join(ROOT, "refactors", f"{k}-{r}")
        os.makedirs(dst, exist_ok=True)
        for f in ("patch.diff", "note.txt"):
            if os.path.exists(f"{d}/{f}"):
                shutil.copy(f"{d}/{f}", dst)
        verdict = {}
        first = {}
        tests = ""
        for name in ("trial.log", "retrial.log"):
            if not os.path.exists(f"{d}/{name}"):
                continue
            for l in open(f"{d}/{name}"):
                m = re.match(r"(OK|VIOLATION) property=(C\d+)(.*)", l)
                if m:
                    v = "OK" if m.group(1) == "OK" else ("VIOLATION no-failing-input-found" if "no-failing-input-found" in l else "VIOLATION")
                    if name == "trial.log":
                        first[m.group(2)] = v
                    verdict[m.group(2)] = v
                if l.startswith("tests_rc") and name == "trial.log":
                    tests = l.strip()
        warns = sorted(set(re.sub(r"; the correspondence run of C\d+ is escalated", "", l.strip())[:200] for n in ("trial.log", "retrial.log")
                           if os.path.exists(f"{d}/{n}") for l in open(f"{d}/{n}") if l.startswith("WARNING: static tie lost")))
        meta = {"area": k, "patch": r, "crate_test_suite_with_patch": tests, "checks_run": len(verdict),
                "alarms_final": sorted(p for p, v in verdict.items() if v != "OK"),
                "alarms_in_first_trial": sorted(p for p, v in first.items() if v != "OK"),
                "static_tie_warnings": warns, "verdicts": verdict}
        json.dump(meta, open(dst + "/meta.json", "w"), indent=1)
        out.append((f"{k}-{r}", len(verdict), meta["alarms_in_first_trial"], meta["alarms_final"], len(warns)))
for o in out:
    print(*o)
