#!/bin/bash
# usage: tools/try_refactors.sh <area-number>... : run try_refactor_ns.sh on /tmp/refwork_<k>/r{1,2,3}, 3 in parallel
for k in "$@"; do for r in r1 r2 r3; do d=/tmp/refwork_$k/$r; [ -f $d/patch.diff ] && echo $d; done; done | xargs -P ${JOBS:-3} -I{} bash -c '/verif/tools/try_refactor_ns.sh {} > {}/trial.log 2>&1'
for k in "$@"; do for r in r1 r2 r3; do d=/tmp/refwork_$k/$r; [ -f $d/trial.log ] && { echo "== area $k $r: $(grep -c "^OK" $d/trial.log) OK, $(grep -c "^VIOLATION" $d/trial.log) VIOLATION, $(grep -c "internal" $d/trial.log) internal; $(head -1 $d/trial.log)"; grep -E "^VIOLATION|internal|^WARNING" $d/trial.log | head -5; }; done; done
