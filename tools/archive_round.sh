#!/bin/bash
# usage: tools/archive_round.sh <round-number> <work-prefix e.g. mutwork7> : archive every confirmed trial of the round under
# /verif/seeded/<PID>-r<round>m<i>/ with the verdict of its trial.log (tools/try_round_ns.sh).  A trial whose first check line is
# not a concrete VIOLATION is archived as missed; edit the verdict after strengthening (tools/archive_mutation.py).
R=$1; PRE=$2
for d in /tmp/${PRE}_C*/m*/; do
  [ -f $d/trial.log ] || continue
  grep -q "^confirm: demo_without=0 demo_with=[1-9]" $d/trial.log || { echo "skip (not confirmed): $d"; continue; }
  grep -q "NOT CONFIRMED" $d/trial.log && { echo "skip (not confirmed): $d"; continue; }
  pid=$(echo $d | sed -E 's#.*_(C[0-9]+)/m[0-9]+/#\1#'); m=$(basename $d)
  line=$(grep "^check $pid:" $d/trial.log | head -1)
  name=$pid-r${R}$m
  if echo "$line" | grep -q "VIOLATION property=$pid replay=" && ! echo "$line" | grep -q "no-failing-input-found"; then
    python3 /verif/tools/archive_mutation.py $pid $d $name yes "VIOLATION property=$pid (quick tier, concrete failing input in replay)"
  elif [ -f $d/verdict.txt ]; then
    python3 /verif/tools/archive_mutation.py $pid $d $name yes "$(cat $d/verdict.txt)"
  else
    echo "MISSED or unclear: $name :: $line"
  fi
done
