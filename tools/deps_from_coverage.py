#!/usr/bin/env python3
"""Development tool (not a registered check): measure, per property, which functions of /repo/src the quick-tier
correspondence run executes, and write srcmap/deps.json (used by gen/srcmap.py:drift_for to decide whether a source
change is relevant to a property).  Instrumented nightly build of the harness in /tmp/covtarget (removed afterwards).

  python3 tools/deps_from_coverage.py [C03 C08 ...]      (default: all twenty)
"""
import importlib, json, os, random, shutil, subprocess, sys
ROOT = os.path.dirname(os.path.dirname(os.path.abspath(__file__)))
sys.path.insert(0, ROOT)
from gen import srcmap
TD = "/tmp/covtarget"
PROF = "/tmp/covprof"
BIN = "/root/.rustup/toolchains/nightly-x86_64-unknown-linux-gnu/lib/rustlib/x86_64-unknown-linux-gnu/bin"
base_env = dict(os.environ, CARGO_NET_OFFLINE="true", RUSTFLAGS="--cfg bnum_verif -C instrument-coverage")
pids = [a for a in sys.argv[1:] if a.startswith("C")] or ["C%02d" % i for i in range(1, 21)]
bins_needed = set()
plan = {}
for pid in pids:
    mod = importlib.import_module("gen." + pid.lower())
    bins = list(getattr(mod, "HARNESS_BINS", [getattr(mod, "HARNESS_BIN", pid.lower())]))
    for npid in (getattr(mod, "NEIGHBOURS", None) or {}):
        if npid.lower() not in bins:
            bins.append(npid.lower())           # neighbouring entry points (check.py step 2d)
    plan[pid] = (mod, list(bins))
    bins_needed.update(bins)
cmd = ["cargo", "+nightly", "build", "--offline", "--features", "nightly", "--target-dir", TD] + [x for b in sorted(bins_needed) for x in ("--bin", b)]
subprocess.run(cmd, cwd=os.path.join(ROOT, "harness"), env=dict(base_env, LLVM_PROFILE_FILE="/dev/null"), check=True,
               stdout=subprocess.DEVNULL, stderr=subprocess.DEVNULL)
sm = srcmap.scan()
by_file = {}
for k, v in sm["functions"].items():
    by_file.setdefault(k.split("::")[0], []).append((v["line"], v["end_line"], k))
deps = json.load(open(srcmap.DEPS)) if os.path.exists(srcmap.DEPS) else {}
for pid in pids:
    mod, bins = plan[pid]
    pdir = os.path.join(PROF, pid)
    shutil.rmtree(pdir, ignore_errors=True)
    os.makedirs(pdir)
    env = dict(base_env, LLVM_PROFILE_FILE=pdir + "/%m-%p.profraw")
    lines = [c[0] for c in mod.gen(random.Random(1000003 + int(pid[1:])), "quick")]
    route0 = getattr(mod, "ROUTE", None) or (lambda l, _b=bins[0]: _b)
    nroute = {}
    import re as _re
    for npid, rx in (getattr(mod, "NEIGHBOURS", None) or {}).items():
        nmod = importlib.import_module("gen." + npid.lower())
        for c in nmod.gen(random.Random(7 + int(npid[1:])), "quick"):
            if _re.match(rx, c[0]) and c[0] not in nroute:
                nroute[c[0]] = npid.lower()
                lines.append(c[0])
    route = lambda l: nroute.get(l) or route0(l)
    objs = []
    for b in bins:
        sub = [l for l in lines if route(l) == b]
        if not sub:
            continue
        exe = os.path.join(TD, "debug", b)
        subprocess.run([exe], input="\n".join(sub) + "\n", capture_output=True, text=True, env=env)
        objs.append(exe)
    subprocess.run(f"{BIN}/llvm-profdata merge -sparse {pdir}/*.profraw -o {pdir}/all.profdata", shell=True, check=True)
    args = [f"{BIN}/llvm-cov", "export", "-format=text", f"-instr-profile={pdir}/all.profdata", objs[0]] + [x for o in objs[1:] for x in ("-object", o)]
    data = json.loads(subprocess.run(args, capture_output=True, text=True).stdout)
    hit = set()
    for f in data["data"][0]["functions"]:
        if not f["count"] or not f["filenames"]:
            continue
        # regions: [lineStart, colStart, lineEnd, colEnd, execCount, fileId, expandedFileId, kind]; macro-generated
        # functions have their regions in the file of the macro definition (fileId indexes `filenames`)
        for r in f["regions"]:
            if r[4] <= 0:
                continue
            fn = f["filenames"][r[5]] if r[5] < len(f["filenames"]) else f["filenames"][0]
            if not fn.startswith("/repo/src/"):
                continue
            rel = fn[len("/repo/src/"):]
            best = None
            for a, b, k in by_file.get(rel, []):
                if a <= r[0] <= b and (best is None or a >= best[0]):
                    best = (a, b, k)
            if best:
                hit.add(best[2])
    deps[pid] = {"functions": sorted(hit), "files": sorted(set(k.split("::")[0] for k in hit)), "requests": len(lines)}
    print(pid, len(lines), "requests ->", len(hit), "functions in", len(deps[pid]["files"]), "files", file=sys.stderr)
    shutil.rmtree(pdir, ignore_errors=True)
os.makedirs(os.path.dirname(srcmap.DEPS), exist_ok=True)
json.dump(deps, open(srcmap.DEPS, "w"), indent=0, sort_keys=True)
shutil.rmtree(TD, ignore_errors=True)
shutil.rmtree(PROF, ignore_errors=True)
