#!/bin/bash
# usage: tools/try_round.sh <round-prefix e.g. mutwork4> PID [PID...] : try m1 and m2 of each
PRE=$1; shift
for p in "$@"; do for m in m1 m2; do d=/tmp/${PRE}_$p/$m; [ -f $d/patch.diff ] || continue; echo "== $p/$m"; /verif/tools/try_mutation.sh $p $d 2>&1 | grep -v KNOWN | tail -2; done; done
