#!/usr/bin/env python3
"""archive_mutation.py <PID> <srcdir> <name> <detected: yes|no> <check-verdict...>"""
import json, os, shutil, sys
pid, src, name, det = sys.argv[1:5]
verdict = " ".join(sys.argv[5:])
dst = os.path.join("/verif/seeded", name)
os.makedirs(dst, exist_ok=True)
for f in ("patch.diff", "demo.rs"):
    shutil.copy(os.path.join(src, f), os.path.join(dst, f))
m = json.load(open(os.path.join(src, "meta.json")))
m.update({"property": pid, "confirmed_by_lead": True,
          "what_was_run": ["private copy of /repo HEAD: examples/mutdemo.rs passes without the patch (debug and release), fails with it; cargo test --workspace --no-fail-fast --offline passes with the patch (tools/try_mutation_ns.sh)",
                           f"patch applied to the private copy, bind-mounted over /repo in a mount namespace together with a copy of /verif; python3 check.py {pid} --tier quick there (equivalent to git -C /repo apply; check; git -C /repo checkout -- .)"],
          "detected": det == "yes", "check_verdict": verdict})
json.dump(m, open(os.path.join(dst, "meta.json"), "w"), indent=1)
