#!/usr/bin/env python3
"""Development tool (not a registered check): line/region coverage of /repo/src under the quick-tier
requests of every property, using an instrumented nightly build of the harness in /tmp/covtarget."""
import importlib, json, os, random, subprocess, sys
ROOT = os.path.dirname(os.path.dirname(os.path.abspath(__file__)))
sys.path.insert(0, ROOT)
TD = "/tmp/covtarget"
BIN = "/root/.rustup/toolchains/nightly-x86_64-unknown-linux-gnu/lib/rustlib/x86_64-unknown-linux-gnu/bin"
env = dict(os.environ, CARGO_NET_OFFLINE="true", RUSTFLAGS="--cfg bnum_verif -C instrument-coverage", LLVM_PROFILE_FILE="/tmp/covprof/%m-%p.profraw")
os.makedirs("/tmp/covprof", exist_ok=True)
subprocess.run(["cargo", "+nightly", "build", "--offline", "--bins", "--features", "nightly", "--target-dir", TD], cwd=os.path.join(ROOT, "harness"), env=env, check=True,
               stdout=subprocess.DEVNULL, stderr=subprocess.DEVNULL)
tier = sys.argv[1] if len(sys.argv) > 1 else "quick"
objs = []
for pid in ["c%02d" % i for i in range(1, 21)]:
    mod = importlib.import_module("gen." + pid)
    lines = [c[0] for c in mod.gen(random.Random(1), tier)]
    bins = getattr(mod, "HARNESS_BINS", [getattr(mod, "HARNESS_BIN", pid)])
    route = getattr(mod, "ROUTE", lambda l: bins[0])
    for b in bins:
        sub = [l for l in lines if route(l) == b]
        if not sub:
            continue
        exe = os.path.join(TD, "debug", b)
        subprocess.run([exe], input="\n".join(sub) + "\n", capture_output=True, text=True, env=env)
        if exe not in objs:
            objs.append(exe)
    print(pid, len(lines), file=sys.stderr)
subprocess.run(f"{BIN}/llvm-profdata merge -sparse /tmp/covprof/*.profraw -o /tmp/covprof/all.profdata", shell=True, check=True)
args = [f"{BIN}/llvm-cov", "report", "-instr-profile=/tmp/covprof/all.profdata", objs[0]] + [x for o in objs[1:] for x in ("-object", o)] + ["/repo/src"]
print(subprocess.run(args, capture_output=True, text=True).stdout)
args[1] = "show"
out = subprocess.run(args + ["-show-line-counts-or-regions", "-use-color=false"], capture_output=True, text=True).stdout
open("/tmp/covprof/show.txt", "w").write(out)
