#!/bin/bash
# usage: tools/try_refactor_ns.sh <dir-with-patch.diff> : apply a behaviour-preserving patch to a private copy of /repo,
# confirm the crate's own test suite passes, run EVERY quick check (development mode, --skip-proof) against it in a
# mount namespace (private copies of /repo and /verif) and print one line per check (env PIDS="C08 C03" restricts the checks).  Every line must be OK (or a
# KNOWN-FINDING): anything else is a false alarm of the machinery (or the patch is not behaviour preserving).
DIR=$(readlink -f "$1")
T=/tmp/reftrial_$$
mkdir -p $T/repo $T/verif
rsync -a --exclude target --exclude .git /repo/ $T/repo/
rsync -a --exclude .git --exclude evidence/replays /verif/ $T/verif/
trap 'rm -rf $T' EXIT
( cd $T/repo && git apply $DIR/patch.diff ) || { echo "PATCH DOES NOT APPLY"; exit 2; }
( cd $T/repo && cargo test --workspace --no-fail-fast --offline >$T/t.log 2>&1 ); echo "tests_rc=$? failed_suites=$(grep -c 'test result: FAILED' $T/t.log)"
rm -rf $T/repo/target
unshare -m bash -c "mount --bind $T/repo /repo && mount --bind $T/verif /verif && cd /verif && for P in \${PIDS:-\$(python3 -c \"import json;print(' '.join(c['property_id'] for c in json.load(open('MANIFEST.json'))['checks']))\")}; do python3 check.py \$P --tier quick --skip-proof 2>&1 | grep -E '^VIOLATION|^OK|^WARNING|internal error' | cut -c1-220; done; mkdir -p $T/out; cp -r /verif/evidence/replays $T/out/ 2>/dev/null"
mkdir -p $DIR/replays; cp $T/out/replays/*.json $DIR/replays/ 2>/dev/null
exit 0
