#!/bin/bash
# usage: tools/try_round_ns.sh <round-prefix e.g. mutwork5> PID [PID...] : try m1 and m2 of each, 6 trials in parallel
# (each in its own mount namespace, see try_mutation_ns.sh).  Output: /tmp/<prefix>_<PID>/<m>/trial.log, summary on stdout.
PRE=$1; shift
J=${JOBS:-6}
for p in "$@"; do for m in m1 m2; do d=/tmp/${PRE}_$p/$m; [ -f $d/patch.diff ] && echo "$p $d"; done; done |
  xargs -P $J -L 1 bash -c '/verif/tools/try_mutation_ns.sh $0 $1 > $1/trial.log 2>&1'
for p in "$@"; do for m in m1 m2; do d=/tmp/${PRE}_$p/$m; [ -f $d/trial.log ] && { echo "== $p/$m"; tail -2 $d/trial.log; }; done; done
