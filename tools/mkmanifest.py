#!/usr/bin/env python3
"""Regenerate /verif/MANIFEST.json from the table below (kept valid at all times)."""
import json, os
ROOT = os.path.dirname(os.path.dirname(os.path.abspath(__file__)))
ids = [json.loads(l)["id"] for l in open(os.path.join(ROOT, "properties.jsonl"))]

NOTE = ("Trusted base: Lean 4.33 kernel; axioms propext/Classical.choice/Quot.sound only (audited per theorem); "
        "Rust primitive integer semantics as modelled in lean/Bnum/Model/Digit.lean; rustc/macro expansion; the correspondence "
        "check (gen/*.py, harness/, bnum_driver compiled from the same Lean definitions the theorems are about). "
        "The hand-written model is tied to /repo by running model, spec and the real crate (debug-assertion and release builds) on the same generated requests on every run.")

TECH = "Lean 4 theorems about a hand-written model + differential correspondence (crate vs model vs spec)"
CLAIMED = {
    "C01": ("Theorems for all digit widths w>=2 and digit counts n>=1 (induction over the digit list): every overflowing/checked/strict/wrapping/saturating/carrying add, sub, neg, abs form, abs_diff, unsigned_abs and midpoint returns wrap(exact) with flag <-> not representable, saturating forms clamp to the side of the exact result, midpoint never panics in either build mode (61 theorems, Props/C01.lean).", TECH, "7 C01"),
    "C02": ("Theorems for all w, n: long_mul returns (a*b mod 2^BITS, a*b >= 2^BITS) by a row/column loop invariant; widening_mul/carrying_mul are exact (hi*2^BITS+lo = a*b (+c)) and chain; signed overflowing_mul = wrapS(a*b) with flag <-> not representable incl. MIN*-1 and x*MIN; all projections; `mul` panics iff debug assertions and overflow (22 theorems, Props/C02.lean).", TECH, "7 C02"),
    "C03": ("Theorems for all w>=2, n>=1: digit::div_rem_wide and short division (div_rem_digit) are exact; the dispatch (zero / cmp / one-digit divisor) returns floor quotient and remainder; on top of the unsigned pair the signed truncating div/rem, euclid, floor, ceil, next_multiple_of/checked_next_multiple_of, every checked/overflowing/wrapping/saturating form, zero-divisor -> None/panic and the six MIN/-1 results, uniqueness of (q,r) (22 theorems, Props/C03.lean). Knuth's Algorithm D (basecase_div_rem) is proved correct as coded for every digit width and length (`knuthD_correct`: q-hat bounds from Theorem A plus the two-digit test, multiply-subtract borrow, add-back, loop invariant, normalising shifts), so no hypothesis is left open. The correspondence generator additionally finds operand pairs that take the add-back branch at quotient positions j>=1 by exact simulation (gen/knuth.py).", TECH, "7 C03"),
    "C05": ("Theorems for all w>=1, n>=1 and every amount: shl = x*2^s mod 2^BITS, shr = floor(x/2^s) (sign-propagating for signed), checked None / strict panic / overflowing flag <-> s >= BITS, unbounded forms, power-of-two widths use s mod BITS; rotate_left/right are the cyclic rotation by n mod BITS for EVERY width and inverse to each other (37 theorems, Props/C05.lean). The rotation theorem holds because of the fix: commit a393892 in /repo; the check found the defect on the unchanged tree.", TECH, "7 C05"),
    "C06": ("Theorems for all w (power-of-two digit widths where the code uses shifts/masks for index arithmetic), n>=1: and/or/xor/not per bit, count_ones/zeros, leading/trailing zeros/ones, bits, bit/set_bit with their exact panic range, power_of_two, is_power_of_two, checked/wrapping/next_power_of_two (per build mode), reverse_bits and swap_bytes as bit/byte reversals and involutions (33 theorems, Props/C06.lean).", TECH, "7 C06"),
    "C07": ("Theorems for all w>=1, n>=1: cmp = compare of the denoted values (unsigned and two's complement), eq <-> identical digit arrays <-> equal values (canonical representation), lt/le/gt/ge/min/max/clamp (panic iff min > max), signum/is_positive/is_negative; hashing is modelled as a function of the digit array, so hash congruence is by injectivity (25 theorems, Props/C07.lean).", TECH, "7 C07"),
    "C09": ("Theorems: one per cast code path (same digit type up/down, signed source padding, cross-digit split and pack, primitive <-> bnum, bool, char): the result is well formed, its value is the source value reduced modulo 2^(target BITS) (zero-/sign-extension and truncation are corollaries), never panics, for any digit widths with w1 | w2 or w2 | w1; cast_signed/cast_unsigned/to_bits/from_bits are the identity on the pattern (21 theorems, Props/C09.lean).", TECH, "7 C09"),
    "C10": ("Theorems (unsigned and signed): from_str_radix/FromStr/parse_bytes return exactly Spec.expectParse: sound (Ok only for grammatical strings, with the denoted value), complete with ANY number of leading zeros, PosOverflow/NegOverflow by sign, Empty, lone sign and short invalid strings give InvalidDigit, never accept an invalid character, panic iff the radix is out of range; from_radix_be/le = Some iff every digit < radix and the value fits (31 theorems, Props/C10.lean). Completeness for radices 2/4/16 holds because of the fix: commit e0b6218 in /repo; the check found the defect on the unchanged tree.", TECH, "7 C10"),
    "C11": ("Theorems: to_radix_le/be are the canonical digit sequences for every radix 2..=256 through all five code paths (byte copy, exact bit slicing, the inexact bit slicer for 8/32/64/128, division by radix_base_half), to_str_radix is the canonical lowercase numeral with '-' for negatives, parsing the output returns the original value (str, be, le), panic iff the radix is out of range (16 theorems, Props/C11.lean).", TECH, "7 C11"),
    "C12": ("Theorems: for all 8 formatting traits, both signednesses and every flag combination the model hands pad_integral exactly the triple (is_nonnegative, prefix, content) that core computes for a primitive of the same value: hex/binary content = positional numeral of the two's-complement pattern (interior zero padding lemma), octal/decimal via the proved to_str_radix, exponent form d.ddde<k> characterised (trailing zeros trimmed, k = floor(log10)), signed Display/Debug/Exp via the sign and |value| (20 theorems, Props/C12.lean). PARTIAL by construction: core's Formatter::pad_integral is modelled after its source, not verified; it is validated against rustc's own formatting of primitives on every run at 8..128 bits (post hook) for every flag combination.", TECH, "7 C12"),
    "C13": ("Theorems: TryFrom bnum->primitive, BTryFrom bnum->bnum (all four sign combinations, any digit types), TryFrom/From primitive->bnum, bool, char: Ok iff the value is representable, value preserved, never panics for in-scope pairs; from_digits/digits/From<[digit;N]> round trips, from_digit (26 theorems, Props/C13.lean). Known finding F6 (From<uK> into a signed bnum of exactly K bits wraps) is recorded: the theorem for that family carries K < BITS and a proved counterexample.", TECH, "7 C13"),
    "C14": ("Theorems for every float format satisfying F.Valid (binary32 and binary64 are instances), every width and both build modes: int -> float returns the encoding of rne_p(v) (proved to be THE nearest p-bit value, ties to even mantissa, exact when it fits) or +infinity on overflow, sign-symmetric for signed sources, never panics; float -> int maps NaN to 0, truncates toward zero and saturates at MIN/MAX (unsigned: negatives to 0, infinities to the bounds) (26 theorems, Props/C14.lean). Floats are bit patterns; the bnum-integer operations inside the generic cast code are composed at value level (their digit-level proofs are C05/C06). The full float->int theorem holds because of the fix: commit e77dd54 in /repo; the check found the defect on the unchanged tree.", TECH, "7 C14"),
    "C15": ("Theorems for every digit byte width 2^k, n>=1 and both target endiannesses: from_be_slice/from_le_slice return Some(v) iff the byte string denotes a representable value (unsigned and two's complement with sign from the most significant byte), zero/sign extension of short slices, long slices accepted iff the excess is pure padding, never panic for any length; to_be/to_le/from_be/from_le swap exactly when the target differs; to/from_{be,le,ne}_bytes are exact inverses producing the two's-complement bytes (35 theorems, Props/C15.lean). The *_bytes methods are exercised through a `cargo +nightly --features nightly` harness build.", TECH, "7 C15"),
    "C17": ("Theorems: every trait form (by value / by reference x4, op-assign, assign by ref) of Add Sub Mul Div Rem BitAnd BitOr BitXor Neg Not equals the inherent method as an Outcome (value AND panic), for both build modes; shifts by each of the twelve primitive amount types: debug panics iff k<0 or k>=BITS, release = wrapping shift by k mod 2^32; bnum-typed amounts are range-checked in both modes and agree with the inherent shift below BITS; Sum/Product are the left folds from ZERO/ONE with the fold's panic outcome; Default, PartialOrd/Ord/PartialEq, FromStr, Add/Div/Rem<digit> (40 theorems, Props/C17.lean). The model of this glue code is hand-written (each impl its own definition mirroring the delegation chain); a changed delegate is caught by the correspondence run, which calls every impl in both build modes.", TECH, "7 C17"),
    "C19": ("Theorems: FromPrimitive::from_{u8..i128,usize,isize} = Some(v) iff v is representable, for every width including targets narrower than the source, never panics; from_f32/from_f64 = Some(trunc f) for finite in-range non-negative-for-unsigned floats and None for NaN/inf/out-of-range; ToPrimitive::to_* = Some iff the value fits (to_f32/to_f64 always Some of the C14 cast); AsPrimitive::as_ = the As cast (24 theorems, Props/C19.lean). num_traits' provided methods (from_u8 -> from_u64 ...) are modelled at value level (trusted).", TECH, "7 C19"),
    "C20": ("Theorems: every sample_single(_inclusive)/Uniform::new(_inclusive)/gen_range result lies in the requested range (signed ranges through the unsigned twin), panic iff the range is empty, accepted RNG words map onto the range with the same number of preimages per value for BOTH zone formulas, Standard is the little-endian value of the next BYTES stream bytes (surjective), fill = generating each element in turn (35 theorems, Props/C20.lean). The RNG is a scripted byte stream; rand's own plumbing (Rng::gen/fill/gen_range down to try_fill_bytes) is modelled, not verified.", TECH, "7 C20"),
}
PENDING = {}

def main():
    checks = []
    for pid, (text, tech, ref) in CLAIMED.items():
        checks.append({
            "property_id": pid,
            "quick_cmd": f"python3 check.py {pid} --tier quick",
            "thorough_cmd": f"python3 check.py {pid} --tier thorough",
            "evidence_file": f"evidence/{pid}.json",
            "replay_cmd_template": f"python3 check.py {pid} --replay {{path}}",
            "engine": "lean4-model+correspondence",
            "level_claimed": {"category": "proof", "text": text, "design_ref": "DESIGN.md section " + ref},
            "level_note": NOTE,
            "technique": tech,
        })
    na = [{"property_id": i, "reason": PENDING.get(i, "check under construction in this repository state (model/harness being built); will be claimed")}
          for i in ids if i not in CLAIMED]
    m = {
        "version": 1,
        "setup_cmd": "./setup.sh",
        "hooks": {"guard": "bnum_verif", "enable": "harness/.cargo/config.toml passes --cfg bnum_verif to every crate built by the checks (no hook commits in /repo so far: the public API reaches every modelled function)",
                  "baseline_off_cmd": "cd /repo && cargo test --workspace --no-fail-fast --offline", "source_commits": [], "add_only": True},
        "engines": [{"name": "lean4-model+correspondence", "path": "check.py", "serves_properties": sorted(CLAIMED),
                     "kind_free_text": "Lean 4 proofs (lean/Bnum/Props) about an executable model (lean/Bnum/Model) + three-way differential run: real crate (harness/), model and spec (bnum_driver)"}],
        "checks": checks,
        "not_applicable": na,
        "notes": "See DESIGN.md. check.py exits 0/1 per the interface; known_findings.json lists genuine defects (open/fixed).",
    }
    json.dump(m, open(os.path.join(ROOT, "MANIFEST.json"), "w"), indent=1)

if __name__ == "__main__":
    main()
