#!/bin/bash
# usage: tools/mk_worker.sh <name> : isolated copy of /verif (git worktree on branch work-<name>) with build output copied
N=$1; D=/tmp/vw_$N
git -C /verif worktree add -q -b work-$N $D HEAD || exit 1
cp -r /verif/lean/.lake $D/lean/.lake
mkdir -p $D/harness; cp -r /verif/harness/target $D/harness/target
echo $D
